#![no_main]
//! bytes -> arbitrary::Unstructured -> abstract packet -> build-side oracles (C02 C03 C04 C07 C16)
use libfuzzer_sys::fuzz_target;
use vp::fuzzing::*;

fuzz_target!(|data: &[u8]| {
    run("build_rt", data, |case| {
        if let Some(s) = vp::fuzzing::sharing_from_bytes(data) {
            report("C02", "roundtrip", &s.assemble(), vp::checks::c02::check_pub(&s.assemble(), case));
            report("C03", "transparent", &s, vp::checks::c03::check_pub(&s, case));
            report("C07", "pointers", &(s.clone(), 7u16), vp::checks::c07::check_pub(&(s.clone(), 7u16), case));
            report("C04", "writers", &(s.clone(), 5u16, false), vp::checks::c04::check_pub(&(s.clone(), 5u16, false), case));
            report("C16", "copies", &s, vp::checks::c16::check_pub(&s, case));
        }
    });
});

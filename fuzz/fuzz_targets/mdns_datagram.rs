#![no_main]
//! bytes -> (store operations, datagrams) -> the C14 handling pipeline
use libfuzzer_sys::fuzz_target;
use vp::fuzzing::*;

fuzz_target!(|data: &[u8]| {
    run("mdns_datagram", data, |case| {
        let b = vp::runner::Bytes(data.to_vec());
        report("C14", "fuzz-bytes", &b, vp::checks::c14::fuzz_entry(data, case));
    });
});

#![no_main]
//! bytes -> name decoder at every offset vs the reference decoder (C06)
use libfuzzer_sys::fuzz_target;
use vp::fuzzing::*;

fuzz_target!(|data: &[u8]| {
    run("name", data, |case| {
        let b = vp::runner::Bytes(data.to_vec());
        let step = (data.len() / 64).max(1);
        let mut off = 0;
        while off <= data.len() {
            let r = vp::checks::c06::compare(data, off, case);
            if r.is_err() {
                report("C06", "fuzz-bytes", &(b.clone(), off as u32), r);
            }
            off += step;
        }
    });
});

#![no_main]
//! bytes -> Packet::parse under the C01 / C05 / C11 / C12 oracles (VP_ORACLE selects, default all)
use libfuzzer_sys::fuzz_target;
use vp::fuzzing::*;

fuzz_target!(|data: &[u8]| {
    let which = oracle_env();
    run("parse", data, |case| {
        let b = vp::runner::Bytes(data.to_vec());
        if which.c01 {
            report("C01", "bytes", &b, vp::checks::c01::check_bytes(&b, case));
        }
        if which.c05 {
            report("C05", "fuzz-bytes", &b, vp::checks::c05::framing_oracle(data, case).map(|_| ()));
        }
        if which.c11 {
            report("C11", "fuzz-bytes", &b, vp::checks::c11::reserialise_oracle(data, case).map(|_| ()));
        }
        if which.c12 {
            report("C12", "fuzz-bytes", &b, vp::checks::c12::inspect_bytes(data, case).map(|_| ()));
        }
    });
});

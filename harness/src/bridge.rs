//! Bridge between the abstract packet and the library's public API.
//! `build` uses public constructors / fields only; `observe` uses public accessors plus the
//! read-only byte hooks. Both are keyed by the library's *field names*, never by wire order.
use crate::refmodel::*;
use crate::runner::Bytes;
use simple_dns::rdata::*;
use simple_dns::*;
use std::borrow::Cow;
use std::result::Result;

thread_local! {
    /// How library values are put together from the model (the same value by a different public route):
    /// bits 0..1: names — 0 from labels, 1 as `<name>.zz.invalid` without `zz.invalid` (Name::without),
    /// 2 from text where the labels allow it (Name::new_unchecked); bit 2: NSEC windows stored in
    /// descending order (the writers sort them); bit 3: SVCB / HTTPS parameters set to a placeholder first and
    /// then replaced through the same setter.
    static BUILD_VARIANT: std::cell::Cell<u8> = const { std::cell::Cell::new(0) };
}

/// select the construction route for the values built on this thread until the next call (0 = default)
pub fn set_build_variant(v: u8) {
    BUILD_VARIANT.with(|x| x.set(v));
}

/// resets the construction route when dropped
pub struct VariantGuard;
impl Drop for VariantGuard {
    fn drop(&mut self) {
        set_build_variant(0);
    }
}
pub fn build_variant(v: u8) -> VariantGuard {
    set_build_variant(v);
    VariantGuard
}

pub fn lname<'a>(n: &'a AName) -> Name<'a> {
    let labels: Vec<Label<'a>> = n.0.iter().map(|l| Label::new_unchecked(&l.0[..])).collect();
    let plain = Name::new_with_labels(&labels);
    match BUILD_VARIANT.with(|x| x.get()) & 3 {
        1 if !labels.is_empty() => {
            let tail = [Label::new_unchecked(&b"zz"[..]), Label::new_unchecked(&b"invalid"[..])];
            let mut long = labels.clone();
            long.extend(tail.iter().cloned());
            let long = Name::new_with_labels(&long);
            let tail = Name::new_with_labels(&tail);
            match long.without(&tail).map(|x| x.into_owned()) {
                // (a route that yields a different name is not used: what `without` returns is not the claim here)
                Some(o) if oname(&o) == *n => o,
                _ => plain,
            }
        }
        2 => {
            let textual = !n.0.is_empty() && n.0.iter().all(|l| !l.0.is_empty() && l.0.iter().all(|b| b.is_ascii_graphic() && *b != b'.'));
            if textual {
                let text: String = n.0.iter().map(|l| String::from_utf8_lossy(&l.0).to_string()).collect::<Vec<_>>().join(".");
                let o = Name::new_unchecked(&text).into_owned();
                if oname(&o) == *n {
                    return o;
                }
            }
            plain
        }
        _ => plain,
    }
}

pub fn oname(n: &Name) -> AName {
    AName(n.get_labels().iter().map(|l| Bytes(l.verif_bytes().to_vec())).collect())
}

fn ocs(c: &CharacterString) -> Bytes {
    Bytes(c.verif_bytes().to_vec())
}

fn cs<'a>(b: &'a Bytes) -> Result<CharacterString<'a>, String> {
    CharacterString::new(&b.0).map_err(|e| format!("CharacterString::new: {:?}", e))
}

pub fn class_of(code: u16) -> Result<CLASS, String> {
    Ok(match code {
        1 => CLASS::IN,
        2 => CLASS::CS,
        3 => CLASS::CH,
        4 => CLASS::HS,
        254 => CLASS::NONE,
        c => return Err(format!("class {} has no variant", c)),
    })
}

pub fn class_code(c: CLASS) -> u16 {
    match c {
        CLASS::IN => 1,
        CLASS::CS => 2,
        CLASS::CH => 3,
        CLASS::HS => 4,
        CLASS::NONE => 254,
        // a variant this harness does not know of (a changed tree may add one): its discriminant
        #[allow(unreachable_patterns)]
        other => other as u16,
    }
}

pub fn qtype_of(code: u16) -> QTYPE {
    match code {
        251 => QTYPE::IXFR,
        252 => QTYPE::AXFR,
        253 => QTYPE::MAILB,
        254 => QTYPE::MAILA,
        255 => QTYPE::ANY,
        c => QTYPE::TYPE(TYPE::from(c)),
    }
}

pub fn qtype_code(q: QTYPE) -> u16 {
    match q {
        QTYPE::IXFR => 251,
        QTYPE::AXFR => 252,
        QTYPE::MAILB => 253,
        QTYPE::MAILA => 254,
        QTYPE::ANY => 255,
        QTYPE::TYPE(t) => u16::from(t),
        #[allow(unreachable_patterns)]
        other => u16::from(other),
    }
}

pub fn qclass_of(code: u16) -> Result<QCLASS, String> {
    if code == 255 {
        Ok(QCLASS::ANY)
    } else {
        class_of(code).map(QCLASS::CLASS)
    }
}

pub fn qclass_code(q: QCLASS) -> u16 {
    match q {
        QCLASS::ANY => 255,
        QCLASS::CLASS(c) => class_code(c),
        #[allow(unreachable_patterns)]
        other => u16::from(other),
    }
}

pub fn opcode_of(v: u8) -> Result<OPCODE, String> {
    Ok(match v {
        0 => OPCODE::StandardQuery,
        1 => OPCODE::InverseQuery,
        2 => OPCODE::ServerStatusRequest,
        4 => OPCODE::Notify,
        5 => OPCODE::Update,
        OPCODE_RESERVED => OPCODE::Reserved,
        v => return Err(format!("opcode {} is not named", v)),
    })
}

pub fn opcode_code(o: OPCODE) -> u8 {
    match o {
        OPCODE::StandardQuery => 0,
        OPCODE::InverseQuery => 1,
        OPCODE::ServerStatusRequest => 2,
        OPCODE::Notify => 4,
        OPCODE::Update => 5,
        OPCODE::Reserved => OPCODE_RESERVED,
        #[allow(unreachable_patterns)]
        _ => OPCODE_RESERVED,
    }
}

pub fn rcode_of(v: u16) -> Result<RCODE, String> {
    Ok(match v {
        0 => RCODE::NoError,
        1 => RCODE::FormatError,
        2 => RCODE::ServerFailure,
        3 => RCODE::NameError,
        4 => RCODE::NotImplemented,
        5 => RCODE::Refused,
        6 => RCODE::YXDOMAIN,
        7 => RCODE::YXRRSET,
        8 => RCODE::NXRRSET,
        9 => RCODE::NOTAUTH,
        10 => RCODE::NOTZONE,
        16 => RCODE::BADVERS,
        RCODE_RESERVED => RCODE::Reserved,
        v => return Err(format!("rcode {} is not named", v)),
    })
}

pub fn rcode_code(r: RCODE) -> u16 {
    match r {
        RCODE::NoError => 0,
        RCODE::FormatError => 1,
        RCODE::ServerFailure => 2,
        RCODE::NameError => 3,
        RCODE::NotImplemented => 4,
        RCODE::Refused => 5,
        RCODE::YXDOMAIN => 6,
        RCODE::YXRRSET => 7,
        RCODE::NXRRSET => 8,
        RCODE::NOTAUTH => 9,
        RCODE::NOTZONE => 10,
        RCODE::BADVERS => 16,
        RCODE::Reserved => RCODE_RESERVED,
        #[allow(unreachable_patterns)]
        _ => RCODE_RESERVED,
    }
}

pub const FLAG_TABLE: [(u16, PacketFlag); 7] = [
    (0x8000, PacketFlag::RESPONSE),
    (0x0400, PacketFlag::AUTHORITATIVE_ANSWER),
    (0x0200, PacketFlag::TRUNCATION),
    (0x0100, PacketFlag::RECURSION_DESIRED),
    (0x0080, PacketFlag::RECURSION_AVAILABLE),
    (0x0020, PacketFlag::AUTHENTIC_DATA),
    (0x0010, PacketFlag::CHECKING_DISABLED),
];

pub fn flags_of(bits: u16) -> PacketFlag {
    let mut f = PacketFlag::empty();
    for (b, fl) in FLAG_TABLE {
        if bits & b != 0 {
            f |= fl;
        }
    }
    f
}

struct It<'a>(std::slice::Iter<'a, Val>);
impl<'a> It<'a> {
    fn u8(&mut self) -> Result<u8, String> {
        match self.0.next() {
            Some(Val::U8(v)) => Ok(*v),
            o => Err(format!("expected U8, got {:?}", o)),
        }
    }
    fn u16(&mut self) -> Result<u16, String> {
        match self.0.next() {
            Some(Val::U16(v)) => Ok(*v),
            o => Err(format!("expected U16, got {:?}", o)),
        }
    }
    fn u32(&mut self) -> Result<u32, String> {
        match self.0.next() {
            Some(Val::U32(v)) => Ok(*v),
            o => Err(format!("expected U32, got {:?}", o)),
        }
    }
    fn u64(&mut self) -> Result<u64, String> {
        match self.0.next() {
            Some(Val::U64(v)) => Ok(*v),
            o => Err(format!("expected U64, got {:?}", o)),
        }
    }
    fn bytes(&mut self) -> Result<&'a Bytes, String> {
        match self.0.next() {
            Some(Val::Bytes(v)) => Ok(v),
            o => Err(format!("expected Bytes, got {:?}", o)),
        }
    }
    fn name(&mut self) -> Result<Name<'a>, String> {
        match self.0.next() {
            Some(Val::Name(v)) => Ok(lname(v)),
            o => Err(format!("expected Name, got {:?}", o)),
        }
    }
}

fn cow(b: &Bytes) -> Cow<'_, [u8]> {
    Cow::Borrowed(&b.0[..])
}

pub fn build_opt<'a>(e: &'a AEdns) -> OPT<'a> {
    OPT {
        udp_packet_size: e.udp,
        version: e.version,
        opt_codes: e
            .options
            .iter()
            .map(|(c, d)| OPTCode {
                code: *c,
                data: cow(d),
            })
            .collect(),
    }
}

/// Build the library value for a typed RDATA from field values (schema order = `TYPES`).
pub fn build_rdata<'a>(rd: &'a ARData) -> Result<RData<'a>, String> {
    let (code, fields) = match rd {
        ARData::Empty { code } => return Ok(RData::Empty(TYPE::from(*code))),
        ARData::Unknown { code, data } => {
            return Ok(RData::NULL(*code, NULL::new(&data.0).map_err(|e| format!("{:?}", e))?))
        }
        ARData::Typed { code, fields } => (*code, fields),
    };
    let mut i = It(fields.iter());
    let r = match code {
        1 => RData::A(A { address: i.u32()? }),
        2 => RData::NS(NS(i.name()?)),
        3 => RData::MD(MD(i.name()?)),
        4 => RData::MF(MF(i.name()?)),
        5 => RData::CNAME(CNAME(i.name()?)),
        6 => RData::SOA(SOA {
            mname: i.name()?,
            rname: i.name()?,
            serial: i.u32()?,
            refresh: i.u32()? as i32,
            retry: i.u32()? as i32,
            expire: i.u32()? as i32,
            minimum: i.u32()?,
        }),
        7 => RData::MB(MB(i.name()?)),
        8 => RData::MG(MG(i.name()?)),
        9 => RData::MR(MR(i.name()?)),
        11 => RData::WKS(WKS {
            address: i.u32()?,
            protocol: i.u8()?,
            bit_map: cow(i.bytes()?),
        }),
        12 => RData::PTR(PTR(i.name()?)),
        13 => RData::HINFO(HINFO {
            cpu: cs(i.bytes()?)?,
            os: cs(i.bytes()?)?,
        }),
        14 => RData::MINFO(MINFO {
            rmailbox: i.name()?,
            emailbox: i.name()?,
        }),
        15 => RData::MX(MX {
            preference: i.u16()?,
            exchange: i.name()?,
        }),
        16 => {
            let strs = match i.0.next() {
                Some(Val::Strs(v)) => v,
                o => return Err(format!("expected Strs, got {:?}", o)),
            };
            let mut t = TXT::new();
            for s in strs {
                t.add_char_string(cs(s)?);
            }
            RData::TXT(t)
        }
        17 => RData::RP(RP {
            mbox: i.name()?,
            txt: i.name()?,
        }),
        18 => RData::AFSDB(AFSDB {
            subtype: i.u16()?,
            hostname: i.name()?,
        }),
        20 => RData::ISDN(ISDN {
            address: cs(i.bytes()?)?,
            sa: cs(i.bytes()?)?,
        }),
        21 => RData::RouteThrough(RouteThrough {
            preference: i.u16()?,
            intermediate_host: i.name()?,
        }),
        22 => RData::NSAP(NSAP {
            afi: i.u8()?,
            idi: i.u16()?,
            dfi: i.u8()?,
            aa: i.u32()?,
            rsvd: i.u16()?,
            rd: i.u16()?,
            area: i.u16()?,
            id: i.u64()?,
            sel: i.u8()?,
        }),
        23 => RData::NSAP_PTR(NSAP_PTR(i.name()?)),
        28 => {
            let b = i.bytes()?;
            let a: [u8; 16] = b.0[..].try_into().map_err(|_| "AAAA needs 16 bytes".to_string())?;
            RData::AAAA(AAAA {
                address: u128::from_be_bytes(a),
            })
        }
        29 => RData::LOC(LOC {
            version: i.u8()?,
            size: i.u8()?,
            horizontal_precision: i.u8()?,
            vertical_precision: i.u8()?,
            latitude: i.u32()? as i32,
            longitude: i.u32()? as i32,
            altitude: i.u32()? as i32,
        }),
        33 => RData::SRV(SRV {
            priority: i.u16()?,
            weight: i.u16()?,
            port: i.u16()?,
            target: i.name()?,
        }),
        35 => RData::NAPTR(NAPTR {
            order: i.u16()?,
            preference: i.u16()?,
            flags: cs(i.bytes()?)?,
            services: cs(i.bytes()?)?,
            regexp: cs(i.bytes()?)?,
            replacement: i.name()?,
        }),
        36 => RData::KX(KX {
            preference: i.u16()?,
            exchanger: i.name()?,
        }),
        37 => RData::CERT(CERT {
            type_code: i.u16()?,
            key_tag: i.u16()?,
            algorithm: i.u8()?,
            certificate: cow(i.bytes()?),
        }),
        41 => {
            let pairs = match i.0.next() {
                Some(Val::Pairs(v)) => v,
                o => return Err(format!("expected Pairs, got {:?}", o)),
            };
            RData::OPT(OPT {
                udp_packet_size: 0,
                version: 0,
                opt_codes: pairs
                    .iter()
                    .map(|(c, d)| OPTCode {
                        code: *c,
                        data: cow(d),
                    })
                    .collect(),
            })
        }
        43 => RData::DS(DS {
            key_tag: i.u16()?,
            algorithm: i.u8()?,
            digest_type: i.u8()?,
            digest: cow(i.bytes()?),
        }),
        45 => {
            let precedence = i.u8()?;
            let algorithm = i.u8()?;
            let gateway = match i.0.next() {
                Some(Val::Gateway(g)) => match g {
                    Gw::None => Gateway::None,
                    Gw::V4(b) => {
                        let a: [u8; 4] = b.0[..].try_into().map_err(|_| "gateway v4 needs 4 bytes".to_string())?;
                        Gateway::IPv4(a.into())
                    }
                    Gw::V6(b) => {
                        let a: [u8; 16] = b.0[..].try_into().map_err(|_| "gateway v6 needs 16 bytes".to_string())?;
                        Gateway::IPv6(a.into())
                    }
                    Gw::Name(n) => Gateway::Domain(lname(n)),
                },
                o => return Err(format!("expected Gateway, got {:?}", o)),
            };
            RData::IPSECKEY(IPSECKEY {
                precedence,
                algorithm,
                gateway,
                public_key: cow(i.bytes()?),
            })
        }
        46 => RData::RRSIG(RRSIG {
            type_covered: i.u16()?,
            algorithm: i.u8()?,
            labels: i.u8()?,
            original_ttl: i.u32()?,
            signature_expiration: i.u32()?,
            signature_inception: i.u32()?,
            key_tag: i.u16()?,
            signer_name: i.name()?,
            signature: cow(i.bytes()?),
        }),
        47 => {
            let next_name = i.name()?;
            let w = match i.0.next() {
                Some(Val::Windows(v)) => v,
                o => return Err(format!("expected Windows, got {:?}", o)),
            };
            let mut type_bit_maps: Vec<TypeBitMap> = w
                .iter()
                .map(|(w, b)| TypeBitMap {
                    window_block: *w,
                    bitmap: cow(b),
                })
                .collect();
            if BUILD_VARIANT.with(|x| x.get()) & 4 != 0 {
                type_bit_maps.reverse();
            }
            RData::NSEC(NSEC { next_name, type_bit_maps })
        }
        48 => RData::DNSKEY(DNSKEY {
            flags: i.u16()?,
            protocol: i.u8()?,
            algorithm: i.u8()?,
            public_key: cow(i.bytes()?),
        }),
        49 => RData::DHCID(DHCID {
            identifier: i.u16()?,
            digest_type: i.u8()?,
            digest: cow(i.bytes()?),
        }),
        63 => RData::ZONEMD(ZONEMD {
            serial: i.u32()?,
            scheme: i.u8()?,
            algorithm: i.u8()?,
            digest: cow(i.bytes()?),
        }),
        64 | 65 => {
            let mut s = SVCB::new(i.u16()?, i.name()?);
            let pairs = match i.0.next() {
                Some(Val::Pairs(v)) => v,
                o => return Err(format!("expected Pairs, got {:?}", o)),
            };
            if BUILD_VARIANT.with(|x| x.get()) & 8 != 0 {
                // variant 8: every parameter is first set to a placeholder and then replaced ("If a parameter of
                // the given key already existed, the previous entry will be replaced"): even keys are replaced
                // at once, the odd ones after all the others, highest key first
                for (k, v) in pairs {
                    // (a library that refuses the placeholder simply gets the value set once)
                    let _ = s.set_param(*k, &b"\x00placeholder"[..]);
                    if k % 2 == 0 {
                        s.set_param(*k, &v.0[..]).map_err(|e| format!("set_param: {:?}", e))?;
                    }
                }
                for (k, v) in pairs.iter().rev() {
                    if k % 2 == 1 {
                        s.set_param(*k, &v.0[..]).map_err(|e| format!("set_param: {:?}", e))?;
                    }
                }
            } else {
                for (k, v) in pairs {
                    s.set_param(*k, &v.0[..]).map_err(|e| format!("set_param: {:?}", e))?;
                }
            }
            if code == 64 {
                RData::SVCB(s)
            } else {
                RData::HTTPS(HTTPS(s))
            }
        }
        108 => {
            let b = i.bytes()?;
            RData::EUI48(EUI48 {
                address: b.0[..].try_into().map_err(|_| "EUI48 needs 6 bytes".to_string())?,
            })
        }
        109 => {
            let b = i.bytes()?;
            RData::EUI64(EUI64 {
                address: b.0[..].try_into().map_err(|_| "EUI64 needs 8 bytes".to_string())?,
            })
        }
        257 => RData::CAA(CAA {
            flag: i.u8()?,
            tag: cs(i.bytes()?)?,
            value: cow(i.bytes()?),
        }),
        c => return Err(format!("no typed variant for code {}", c)),
    };
    if i.0.next().is_some() {
        return Err("too many field values".into());
    }
    Ok(r)
}

pub fn build_record<'a>(r: &'a ARecord) -> Result<ResourceRecord<'a>, String> {
    Ok(ResourceRecord::new(lname(&r.name), class_of(r.class)?, r.ttl, build_rdata(&r.rdata)?).with_cache_flush(r.cache_flush))
}

pub fn build_question<'a>(q: &'a AQuestion) -> Result<Question<'a>, String> {
    Ok(Question::new(lname(&q.name), qtype_of(q.qtype), qclass_of(q.qclass)?, q.unicast))
}

/// Assemble a packet through the public constructors.
pub fn build<'a>(p: &'a APacket) -> Result<Packet<'a>, String> {
    let mut pk = if p.flags & 0x8000 != 0 {
        Packet::new_reply(p.id)
    } else {
        Packet::new_query(p.id)
    };
    pk.set_flags(flags_of(p.flags));
    *pk.opcode_mut() = opcode_of(p.opcode)?;
    *pk.rcode_mut() = rcode_of(p.rcode)?;
    if let Some(e) = &p.edns {
        *pk.opt_mut() = Some(build_opt(e));
    }
    for q in &p.questions {
        pk.questions.push(build_question(q)?);
    }
    for r in &p.answers {
        pk.answers.push(build_record(r)?);
    }
    for r in &p.authorities {
        pk.name_servers.push(build_record(r)?);
    }
    for r in &p.additionals {
        pk.additional_records.push(build_record(r)?);
    }
    Ok(pk)
}

// ---------------------------------------------------------------------------------------------

pub fn observe_rdata(rd: &RData) -> ARData {
    use Val as V;
    type RB = crate::runner::Bytes;
    let b = |c: &Cow<[u8]>| V::Bytes(RB::from(c.to_vec()));
    let n = |x: &simple_dns::Name| V::Name(oname(x));
    let (code, fields): (u16, Vec<Val>) = match rd {
        RData::Empty(t) => return ARData::Empty { code: u16::from(*t) },
        // zero octets of opaque data and "no RDATA" are one and the same record on the wire and in the model
        // (which variant the library uses for it is not something any statement fixes)
        RData::NULL(code, d) if d.get_data().is_empty() => return ARData::Empty { code: *code },
        RData::NULL(code, d) => {
            return ARData::Unknown {
                code: *code,
                data: RB::from(d.get_data().to_vec()),
            }
        }
        RData::A(a) => (1, vec![V::U32(a.address)]),
        RData::NS(x) => (2, vec![n(&x.0)]),
        RData::MD(x) => (3, vec![n(&x.0)]),
        RData::MF(x) => (4, vec![n(&x.0)]),
        RData::CNAME(x) => (5, vec![n(&x.0)]),
        RData::SOA(s) => (
            6,
            vec![
                n(&s.mname),
                n(&s.rname),
                V::U32(s.serial),
                V::U32(s.refresh as u32),
                V::U32(s.retry as u32),
                V::U32(s.expire as u32),
                V::U32(s.minimum),
            ],
        ),
        RData::MB(x) => (7, vec![n(&x.0)]),
        RData::MG(x) => (8, vec![n(&x.0)]),
        RData::MR(x) => (9, vec![n(&x.0)]),
        RData::WKS(w) => (11, vec![V::U32(w.address), V::U8(w.protocol), b(&w.bit_map)]),
        RData::PTR(x) => (12, vec![n(&x.0)]),
        RData::HINFO(h) => (13, vec![V::Bytes(ocs(&h.cpu)), V::Bytes(ocs(&h.os))]),
        RData::MINFO(m) => (14, vec![n(&m.rmailbox), n(&m.emailbox)]),
        RData::MX(m) => (15, vec![V::U16(m.preference), n(&m.exchange)]),
        RData::TXT(t) => (16, vec![V::Strs(t.verif_strings().iter().map(ocs).collect())]),
        RData::RP(r) => (17, vec![n(&r.mbox), n(&r.txt)]),
        RData::AFSDB(a) => (18, vec![V::U16(a.subtype), n(&a.hostname)]),
        RData::ISDN(i) => (20, vec![V::Bytes(ocs(&i.address)), V::Bytes(ocs(&i.sa))]),
        RData::RouteThrough(r) => (21, vec![V::U16(r.preference), n(&r.intermediate_host)]),
        RData::NSAP(s) => (
            22,
            vec![
                V::U8(s.afi),
                V::U16(s.idi),
                V::U8(s.dfi),
                V::U32(s.aa),
                V::U16(s.rsvd),
                V::U16(s.rd),
                V::U16(s.area),
                V::U64(s.id),
                V::U8(s.sel),
            ],
        ),
        RData::NSAP_PTR(x) => (23, vec![n(&x.0)]),
        RData::AAAA(a) => (28, vec![V::Bytes(RB::from(a.address.to_be_bytes().to_vec()))]),
        RData::LOC(l) => (
            29,
            vec![
                V::U8(l.version),
                V::U8(l.size),
                V::U8(l.horizontal_precision),
                V::U8(l.vertical_precision),
                V::U32(l.latitude as u32),
                V::U32(l.longitude as u32),
                V::U32(l.altitude as u32),
            ],
        ),
        RData::SRV(s) => (33, vec![V::U16(s.priority), V::U16(s.weight), V::U16(s.port), n(&s.target)]),
        RData::NAPTR(x) => (
            35,
            vec![
                V::U16(x.order),
                V::U16(x.preference),
                V::Bytes(ocs(&x.flags)),
                V::Bytes(ocs(&x.services)),
                V::Bytes(ocs(&x.regexp)),
                n(&x.replacement),
            ],
        ),
        RData::KX(k) => (36, vec![V::U16(k.preference), n(&k.exchanger)]),
        RData::CERT(c) => (37, vec![V::U16(c.type_code), V::U16(c.key_tag), V::U8(c.algorithm), b(&c.certificate)]),
        RData::OPT(o) => (
            41,
            vec![V::Pairs(o.opt_codes.iter().map(|c| (c.code, RB::from(c.data.to_vec()))).collect())],
        ),
        RData::DS(d) => (43, vec![V::U16(d.key_tag), V::U8(d.algorithm), V::U8(d.digest_type), b(&d.digest)]),
        RData::IPSECKEY(k) => (
            45,
            vec![
                V::U8(k.precedence),
                V::U8(k.algorithm),
                V::Gateway(match &k.gateway {
                    simple_dns::rdata::Gateway::None => Gw::None,
                    simple_dns::rdata::Gateway::IPv4(a) => Gw::V4(RB::from(a.octets().to_vec())),
                    simple_dns::rdata::Gateway::IPv6(a) => Gw::V6(RB::from(a.octets().to_vec())),
                    simple_dns::rdata::Gateway::Domain(d) => Gw::Name(oname(d)),
                }),
                b(&k.public_key),
            ],
        ),
        RData::RRSIG(r) => (
            46,
            vec![
                V::U16(r.type_covered),
                V::U8(r.algorithm),
                V::U8(r.labels),
                V::U32(r.original_ttl),
                V::U32(r.signature_expiration),
                V::U32(r.signature_inception),
                V::U16(r.key_tag),
                n(&r.signer_name),
                b(&r.signature),
            ],
        ),
        RData::NSEC(x) => (
            47,
            vec![
                n(&x.next_name),
                V::Windows(
                    x.type_bit_maps
                        .iter()
                        .map(|w| (w.window_block, RB::from(w.bitmap.to_vec())))
                        .collect(),
                ),
            ],
        ),
        RData::DNSKEY(k) => (48, vec![V::U16(k.flags), V::U8(k.protocol), V::U8(k.algorithm), b(&k.public_key)]),
        RData::DHCID(d) => (49, vec![V::U16(d.identifier), V::U8(d.digest_type), b(&d.digest)]),
        RData::ZONEMD(z) => (63, vec![V::U32(z.serial), V::U8(z.scheme), V::U8(z.algorithm), b(&z.digest)]),
        RData::SVCB(s) => (64, svcb_fields(s)),
        RData::HTTPS(h) => (65, svcb_fields(&h.0)),
        RData::EUI48(e) => (108, vec![V::Bytes(RB::from(e.address.to_vec()))]),
        RData::EUI64(e) => (109, vec![V::Bytes(RB::from(e.address.to_vec()))]),
        RData::CAA(c) => (257, vec![V::U8(c.flag), V::Bytes(ocs(&c.tag)), b(&c.value)]),
        // a variant this harness does not know of (a changed tree may add one): shown as opaque data of its type
        #[allow(unreachable_patterns)]
        other => {
            return ARData::Unknown { code: u16::from(other.type_code()), data: RB::from(format!("{:?}", other).into_bytes()) };
        }
    };
    ARData::Typed { code, fields }
}

fn svcb_fields(s: &SVCB) -> Vec<Val> {
    vec![
        Val::U16(s.priority),
        Val::Name(oname(&s.target)),
        Val::Pairs(s.iter_params().map(|(k, v)| (k, Bytes(v.to_vec()))).collect()),
    ]
}

pub fn observe_record(r: &ResourceRecord) -> ARecord {
    let rdata = observe_rdata(&r.rdata);
    // a stray OPT record carries the UDP size where the class would be
    let (class, cache_flush) = match &r.rdata {
        RData::OPT(o) => (o.udp_packet_size, false),
        _ => (class_code(r.class), r.cache_flush),
    };
    ARecord {
        name: oname(&r.name),
        class,
        cache_flush,
        ttl: r.ttl,
        rdata,
    }
}

pub fn observe_question(q: &Question) -> AQuestion {
    AQuestion {
        name: oname(&q.qname),
        qtype: qtype_code(q.qtype),
        qclass: qclass_code(q.qclass),
        unicast: q.unicast_response,
    }
}

pub fn observe(p: &Packet) -> APacket {
    let mut flags = 0u16;
    for (b, fl) in FLAG_TABLE {
        if p.has_flags(fl) {
            flags |= b;
        }
    }
    APacket {
        id: p.id(),
        flags,
        opcode: opcode_code(p.opcode()),
        rcode: rcode_code(p.rcode()),
        edns: p.opt().map(|o| AEdns {
            udp: o.udp_packet_size,
            version: o.version,
            options: o.opt_codes.iter().map(|c| (c.code, Bytes(c.data.to_vec()))).collect(),
        }),
        questions: p.questions.iter().map(observe_question).collect(),
        answers: p.answers.iter().map(observe_record).collect(),
        authorities: p.name_servers.iter().map(observe_record).collect(),
        additionals: p.additional_records.iter().map(observe_record).collect(),
    }
}

/// first difference between two abstract packets, rendered for a failure message
pub fn diff(a: &APacket, b: &APacket) -> String {
    if a.id != b.id {
        return format!("id {} vs {}", a.id, b.id);
    }
    if a.flags != b.flags {
        return format!("flags {:#06x} vs {:#06x}", a.flags, b.flags);
    }
    if a.opcode != b.opcode {
        return format!("opcode {} vs {}", a.opcode, b.opcode);
    }
    if a.rcode != b.rcode {
        return format!("rcode {} vs {}", a.rcode, b.rcode);
    }
    if a.edns != b.edns {
        return format!("edns {:?} vs {:?}", a.edns, b.edns);
    }
    if a.questions.len() != b.questions.len() {
        return format!("question count {} vs {}", a.questions.len(), b.questions.len());
    }
    for (i, (x, y)) in a.questions.iter().zip(&b.questions).enumerate() {
        if x != y {
            return format!("question[{}] {:?} vs {:?}", i, x, y);
        }
    }
    for (sname, xs, ys) in [
        ("answers", &a.answers, &b.answers),
        ("authorities", &a.authorities, &b.authorities),
        ("additionals", &a.additionals, &b.additionals),
    ] {
        if xs.len() != ys.len() {
            return format!("{} count {} vs {}", sname, xs.len(), ys.len());
        }
        for (i, (x, y)) in xs.iter().zip(ys.iter()).enumerate() {
            if x != y {
                if x.name != y.name {
                    return format!("{}[{}].name {:?} vs {:?}", sname, i, x.name, y.name);
                }
                if x.class != y.class || x.cache_flush != y.cache_flush || x.ttl != y.ttl {
                    return format!(
                        "{}[{}] class/flush/ttl {}/{}/{} vs {}/{}/{}",
                        sname, i, x.class, x.cache_flush, x.ttl, y.class, y.cache_flush, y.ttl
                    );
                }
                let s = format!("{}[{}].rdata {:?} vs {:?}", sname, i, x.rdata, y.rdata);
                return s.chars().take(700).collect();
            }
        }
    }
    "no difference".into()
}

//! C01 — parsing untrusted bytes never panics, hangs or over-allocates
use super::util::*;
use crate::driver::CheckDef;
use crate::gen;
use crate::refmodel::*;
use crate::runner::*;
use proptest::collection::vec;
use proptest::prelude::*;
use proptest::strategy::ValueTree;
use proptest::test_runner::TestRunner;

/// the oracle shared by every section: the input is a byte string
pub fn check_bytes(b: &Bytes, case: &mut Case) -> Result<(), Fail> {
    if b.len() <= 12 {
        case.class("short");
    }
    peek_all(b)?;
    let accepted = guarded_parse(b, case)?;
    // non-trivial: a full header with Z clear, i.e. the parser got as far as the sections
    case.nontrivial = b.len() >= 12 && b[3] & 0x40 == 0;
    case.class(if accepted { "accepted" } else { "rejected" });
    Ok(())
}

// ---- 1. cut / perturb enumeration over reference encodings of every type

/// deterministic sample values for one type
fn sample_rdata(code: u16, n: usize) -> Vec<ARData> {
    let mut out = vec![default_typed(code)];
    let mut runner = TestRunner::deterministic();
    let strat = gen::typed(code);
    for _ in 0..n {
        out.push(strat.new_tree(&mut runner).unwrap().current());
    }
    out
}

pub fn base_messages(per_type: usize) -> Vec<(String, Vec<u8>)> {
    let mut out = Vec::new();
    let owner = AName::from_strs(&["host", "example", "com"]);
    let mut push = |label: String, p: &APacket| {
        out.push((format!("{}/plain", label), encode_message(p, &EncOpts::plain())));
        out.push((format!("{}/compressed", label), encode_message(p, &EncOpts::foreign(vec![1]))));
    };
    let mut rdatas: Vec<(String, ARData)> = Vec::new();
    for code in gen::record_codes() {
        for (i, rd) in sample_rdata(code, per_type).into_iter().enumerate() {
            rdatas.push((format!("{}#{}", type_info(code).unwrap().mnemonic, i), rd));
        }
    }
    rdatas.push(("unknown".into(), ARData::Unknown { code: 99, data: Bytes(vec![1, 2, 3, 4, 5]) }));
    rdatas.push(("null".into(), ARData::Unknown { code: 10, data: Bytes(vec![9; 7]) }));
    rdatas.push(("empty".into(), ARData::Empty { code: 1 }));
    rdatas.push(("empty-unknown".into(), ARData::Empty { code: 99 }));
    for (label, rd) in rdatas {
        let rec = ARecord { name: owner.clone(), class: 1, cache_flush: false, ttl: 3600, rdata: rd };
        let mut p = APacket { id: 0x1234, flags: 0x8400, ..Default::default() };
        p.questions.push(AQuestion { name: owner.clone(), qtype: rec.rdata.code(), qclass: 1, unicast: false });
        p.answers.push(rec.clone());
        push(format!("{}/single", label), &p);
        // followed by another record, and the same record in the other sections
        p.answers.push(ARecord { name: AName::from_strs(&["example", "com"]), class: 1, cache_flush: true, ttl: 1, rdata: default_typed(15) });
        p.authorities.push(rec.clone());
        p.additionals.push(rec);
        push(format!("{}/multi", label), &p);
    }
    // OPT at each position of the additional section
    for pos in 0..3 {
        for opts in [vec![], vec![(10u16, Bytes(vec![1, 2, 3, 4, 5, 6, 7, 8])), (65001, Bytes(vec![]))]] {
            let mut p = APacket { id: 7, flags: 0, rcode: 16, ..Default::default() };
            p.questions.push(AQuestion { name: owner.clone(), qtype: 1, qclass: 1, unicast: false });
            p.edns = Some(AEdns { udp: 4096, version: 0, options: opts });
            p.additionals.push(ARecord { name: owner.clone(), class: 1, cache_flush: false, ttl: 5, rdata: default_typed(1) });
            p.additionals.push(ARecord { name: owner.clone(), class: 1, cache_flush: false, ttl: 5, rdata: default_typed(28) });
            let mut o = EncOpts::plain();
            o.edns_pos = pos;
            out.push((format!("OPT@{}", pos), encode_message(&p, &o)));
        }
    }
    out
}

fn enum_cut_perturb(t: Tier, shard: usize, n: usize, f: &mut dyn FnMut(Bytes) -> bool) {
    let bases = base_messages(t.pick(2, 6));
    for (bi, (_label, m)) in bases.iter().enumerate() {
        if !mine(bi, shard, n) {
            continue;
        }
        // every truncation point
        for cut in 0..=m.len() {
            if !f(Bytes(m[..cut].to_vec())) {
                return;
            }
        }
        // every byte: -1, +1, 0, max, high bit, pointer tag
        for i in 0..m.len() {
            let b = m[i];
            for v in [b.wrapping_sub(1), b.wrapping_add(1), 0, 0xff, b ^ 0x80, b | 0xc0, b & 0x3f] {
                if v == b {
                    continue;
                }
                let mut x = m.clone();
                x[i] = v;
                if !f(Bytes(x)) {
                    return;
                }
            }
        }
        // every value of every RDLENGTH from 0 to natural + 2 (the bytes stay where they are, so the frame
        // ends inside a field, inside an address, inside a name ...)
        if let Ok(w) = walk(m) {
            for r in &w.records {
                for v in 0..=(r.rdlen + 2).min(300) {
                    if v == r.rdlen {
                        continue;
                    }
                    let mut x = m.clone();
                    x[r.rdata_off - 2..r.rdata_off].copy_from_slice(&(v as u16).to_be_bytes());
                    if !f(Bytes(x)) {
                        return;
                    }
                }
            }
        }
        // the four section counts: +1, max
        for c in 0..4 {
            for v in [1u16, 2, 0xffff, 0x100] {
                let mut x = m.clone();
                let o = 4 + 2 * c;
                let cur = u16::from_be_bytes([x[o], x[o + 1]]);
                x[o..o + 2].copy_from_slice(&cur.wrapping_add(v).to_be_bytes());
                if !f(Bytes(x)) {
                    return;
                }
            }
        }
    }
}

// ---- 1b. many records of one type in one large message (superlinear behaviour per record)

fn enum_many(t: Tier, shard: usize, n: usize, f: &mut dyn FnMut(Bytes) -> bool) {
    let mut rdatas: Vec<ARData> = Vec::new();
    for code in typed_codes() {
        rdatas.push(default_typed(code));
        rdatas.push(ARData::Empty { code });
    }
    rdatas.push(ARData::Unknown { code: 99, data: Bytes(vec![0]) });
    let counts = t.pick(vec![400usize, 2500], vec![400, 2500, 5000]);
    let mut i = 0;
    for rd in rdatas {
        for section in 0..3usize {
            for count in &counts {
                i += 1;
                if !mine(i, shard, n) {
                    continue;
                }
                let rec = ARecord { name: AName(vec![]), class: 1, cache_flush: false, ttl: 0, rdata: rd.clone() };
                let one = {
                    let mut p = APacket::default();
                    p.answers.push(rec.clone());
                    encode_message(&p, &EncOpts::plain())[12..].to_vec()
                };
                let k = (*count).min(65000 / one.len().max(1));
                let mut m = vec![0u8; 12];
                m[6 + 2 * section..8 + 2 * section].copy_from_slice(&(k as u16).to_be_bytes());
                for _ in 0..k {
                    m.extend_from_slice(&one);
                }
                if !f(Bytes(m)) {
                    return;
                }
            }
        }
    }
}

// ---- 1c. arrangements of a few special entries: every sequence of up to 5 records drawn from {A, OPT, OPT with an
// option, CNAME, empty-RDATA record} in each record section, with exact and with overstated counts

const SPECIAL_RECORDS: [&[u8]; 5] = [
    &[0, 0, 1, 0, 1, 0, 0, 0, 5, 0, 4, 10, 0, 0, 1],
    &[0, 0, 41, 0x04, 0xd0, 0, 0, 0, 0, 0, 0],
    &[0, 0, 41, 0x02, 0x00, 0x01, 0x02, 0x80, 0, 0, 6, 0, 10, 0, 2, 0xab, 0xcd],
    &[0, 0, 5, 0, 1, 0, 0, 0, 9, 0, 3, 1, b'x', 0],
    &[0, 0, 99, 0x80, 1, 0, 0, 0, 0, 0, 0],
];

/// a message whose record section `section` (1..=3) holds the given special records (indices into SPECIAL_RECORDS)
/// and announces `extra` more; `response` sets the QR bit
pub fn render_arrangement(kinds: &[u8], section: usize, extra: u16, response: bool) -> Vec<u8> {
    let mut m = vec![0x12, 0x34, if response { 0x80 } else { 0x00 }, 0x00, 0, 0, 0, 0, 0, 0, 0, 0];
    for k in kinds {
        m.extend_from_slice(SPECIAL_RECORDS[*k as usize % 5]);
    }
    let section = section.clamp(1, 3);
    let count = (kinds.len() as u16).wrapping_add(extra);
    m[4 + 2 * section..6 + 2 * section].copy_from_slice(&count.to_be_bytes());
    m
}

fn enum_arrangements(_t: Tier, shard: usize, n: usize, f: &mut dyn FnMut(Bytes) -> bool) {
    let kinds = SPECIAL_RECORDS;
    let mut idx = 0usize;
    for len in 0..=5usize {
        for code in 0..5usize.pow(len as u32) {
            for section in 1..4usize {
                for extra in [0u16, 1, 0xff00] {
                    idx += 1;
                    if !mine(idx, shard, n) {
                        continue;
                    }
                    let mut m = vec![0x12, 0x34, 0x80, 0x00, 0, 0, 0, 0, 0, 0, 0, 0];
                    let mut x = code;
                    for _ in 0..len {
                        m.extend_from_slice(kinds[x % 5]);
                        x /= 5;
                    }
                    let count = (len as u16).wrapping_add(extra);
                    m[4 + 2 * section..6 + 2 * section].copy_from_slice(&count.to_be_bytes());
                    if !f(Bytes(m)) {
                        return;
                    }
                }
            }
        }
    }
}

// ---- 2. short buffers

fn enum_short(_t: Tier, shard: usize, n: usize, f: &mut dyn FnMut(Bytes) -> bool) {
    const A: [u8; 7] = [0x00, 0x01, 0x3f, 0x40, 0x80, 0xc0, 0xff];
    let mut idx = 0;
    for len in 0..=4usize {
        for k in 0..7usize.pow(len as u32) {
            idx += 1;
            if !mine(idx, shard, n) {
                continue;
            }
            let mut x = k;
            let mut b = Vec::new();
            for _ in 0..len {
                b.push(A[x % 7]);
                x /= 7;
            }
            if !f(Bytes(b)) {
                return;
            }
        }
    }
    // every length 5..=13 with a few fill patterns
    for len in 5..=13usize {
        for fill in [0u8, 0xff, 0xc0, 0x01, 0x80] {
            idx += 1;
            if mine(idx, shard, n) && !f(Bytes(vec![fill; len])) {
                return;
            }
            let mut v = vec![0u8; len];
            for (i, x) in v.iter_mut().enumerate() {
                *x = fill.wrapping_add((i as u8).wrapping_mul(37));
            }
            if mine(idx, shard, n) && !f(Bytes(v)) {
                return;
            }
        }
    }
}

// ---- 3. bounded-exhaustive bodies behind fixed headers

fn enum_bodies(t: Tier, shard: usize, n: usize, f: &mut dyn FnMut(Bytes) -> bool) {
    const A: [u8; 12] = [0, 1, 2, 3, 12, 13, 0x3f, 0x40, 0x80, 0xc0, 0xff, b'a'];
    let maxlen = t.pick(6, 7);
    let headers: [[u8; 12]; 3] = [
        [0, 0, 0, 0, 0, 1, 0, 0, 0, 0, 0, 0],
        [0, 0, 0x80, 0, 0, 0, 0, 1, 0, 0, 0, 0],
        [0, 0, 0, 0, 0, 0, 0, 0, 0, 0, 0, 1],
    ];
    let mut idx = 0usize;
    for len in 0..=maxlen {
        let total = 12usize.pow(len as u32);
        for k in 0..total {
            idx += 1;
            if !mine(idx, shard, n) {
                continue;
            }
            let mut body = Vec::with_capacity(len);
            let mut x = k;
            for _ in 0..len {
                body.push(A[x % 12]);
                x /= 12;
            }
            for h in &headers {
                let mut m = h.to_vec();
                m.extend_from_slice(&body);
                if !f(Bytes(m)) {
                    return;
                }
            }
            // a fourth header whose id octets, read as label lengths from offset 0 or 1, span the message up to its
            // last octet: a pointer into the header then walks forward over the body and stops on the final octet
            if len >= 2 {
                let mut m = vec![(12 + len - 2) as u8, (12 + len - 3) as u8, 0, 0, 0, 1, 0, 0, 0, 0, 0, 0];
                m.extend_from_slice(&body);
                if !f(Bytes(m)) {
                    return;
                }
            }
        }
    }
}

// ---- 4. pointer graphs

#[derive(Debug, Clone, PartialEq, Eq, Hash, serde::Serialize, serde::Deserialize)]
pub enum End {
    Zero,
    /// pointer to the start of fragment (index scaled into 0..current)
    ToFrag(u16),
    /// pointer to the previous fragment (long chains)
    Prev,
    Abs(u16),
    SelfPtr,
    Forward(u8),
    /// no terminator at all
    Open,
    /// pointer to a few bytes before itself (into the fixed fields of the previous entry)
    Back(u8),
}

#[derive(Debug, Clone, PartialEq, Eq, Hash, serde::Serialize, serde::Deserialize)]
pub struct Frag {
    pub labels: Vec<Bytes>,
    pub end: End,
}

#[derive(Debug, Clone, PartialEq, Eq, Hash, serde::Serialize, serde::Deserialize)]
pub struct Graph {
    pub frags: Vec<Frag>,
    /// repeat the last fragment this many extra times (cheap way to reach 64 KiB)
    pub repeat_last: u16,
    /// as questions (true) or as answer records with RDLENGTH 0
    pub as_questions: bool,
    /// the id octets (label lengths for pointers into the header)
    #[serde(default)]
    pub id: u16,
    /// 0: nothing; 1..=3: one stray octet (0xC0, 0xFF, 0x3F) appended; 4..=6: the last 1..3 octets cut off
    #[serde(default)]
    pub tail: u8,
}

pub fn render_graph(g: &Graph) -> Vec<u8> {
    let mut m = vec![0u8; 12];
    let mut starts: Vec<usize> = Vec::new();
    let mut count = 0usize;
    let total = g.frags.len() + g.repeat_last as usize;
    for i in 0..total {
        let fr = &g.frags[i.min(g.frags.len() - 1)];
        let start = m.len();
        if start + 300 > 65535 {
            break;
        }
        starts.push(start);
        for l in &fr.labels {
            m.push(l.len().min(63) as u8);
            m.extend_from_slice(&l[..l.len().min(63)]);
        }
        let ptr = |t: usize| [0xc0 | ((t >> 8) & 0x3f) as u8, t as u8];
        match &fr.end {
            End::Zero => m.push(0),
            End::ToFrag(k) => {
                let t = if starts.len() > 1 { starts[gen::pick(*k, starts.len() - 1)] } else { 0 };
                m.extend_from_slice(&ptr(t));
            }
            End::Prev => {
                let t = if starts.len() > 1 { starts[starts.len() - 2] } else { 0 };
                m.extend_from_slice(&ptr(t));
            }
            End::Abs(a) => m.extend_from_slice(&ptr(*a as usize)),
            End::SelfPtr => m.extend_from_slice(&ptr(m.len())),
            End::Forward(d) => m.extend_from_slice(&ptr(m.len() + 2 + *d as usize)),
            End::Back(d) => m.extend_from_slice(&ptr(m.len().saturating_sub(1 + (*d % 12) as usize))),
            End::Open => {}
        }
        if g.as_questions {
            m.extend_from_slice(&[0, 1, 0, 1]);
        } else {
            m.extend_from_slice(&[0, 1, 0, 1, 0, 0, 0, 0, 0, 0]);
        }
        count += 1;
    }
    let o = if g.as_questions { 4 } else { 6 };
    m[o..o + 2].copy_from_slice(&(count as u16).to_be_bytes());
    m[0..2].copy_from_slice(&g.id.to_be_bytes());
    match g.tail {
        1 => m.push(0xc0),
        2 => m.push(0xff),
        3 => m.push(0x3f),
        4..=6 => {
            let cut = (g.tail - 3) as usize;
            let keep = m.len().saturating_sub(cut).max(12);
            m.truncate(keep);
        }
        _ => {}
    }
    m
}

fn small_label() -> BoxedStrategy<Bytes> {
    prop_oneof![
        4 => vec(any::<u8>(), 1..=3).prop_map(Bytes),
        1 => vec(any::<u8>(), 60..=63).prop_map(Bytes),
    ]
    .boxed()
}

fn frag() -> BoxedStrategy<Frag> {
    (
        vec(small_label(), 0..=3),
        prop_oneof![
            3 => Just(End::Zero),
            6 => any::<u16>().prop_map(End::ToFrag),
            6 => Just(End::Prev),
            2 => prop_oneof![0u16..16, any::<u16>()].prop_map(End::Abs),
            1 => Just(End::SelfPtr),
            1 => any::<u8>().prop_map(End::Forward),
            1 => Just(End::Open),
            3 => any::<u8>().prop_map(End::Back),
        ],
    )
        .prop_map(|(labels, end)| Frag { labels, end })
        .boxed()
}

pub fn graph_strategy(t: Tier) -> BoxedStrategy<Graph> {
    let big = t.pick(2000u16, 11000);
    (
        vec(frag(), 1..40),
        prop_oneof![6 => Just(0u16), 3 => 0u16..200, 1 => 0..=big],
        any::<bool>(),
        prop_oneof![2 => Just(0u16), 2 => (0u16..40, 0u16..40).prop_map(|(a, b)| (a << 8) | b), 1 => any::<u16>()],
        prop_oneof![3 => Just(0u8), 2 => 1u8..=6],
    )
        .prop_map(|(frags, repeat_last, as_questions, id, tail)| Graph { frags, repeat_last, as_questions, id, tail })
        .boxed()
}

fn check_graph(g: &Graph, case: &mut Case) -> Result<(), Fail> {
    let m = render_graph(g);
    if m.len() > 16384 {
        case.class("over-16k");
    }
    if g.frags.iter().any(|f| matches!(f.end, End::SelfPtr | End::Forward(_))) {
        case.class("self-or-forward");
    }
    if g.repeat_last > 100 && matches!(g.frags.last().unwrap().end, End::Prev) {
        case.class("long-chain");
    }
    check_bytes(&Bytes(m), case)
}

// ---- 5. grammar-directed random: reference encodings with mutations

#[derive(Debug, Clone, PartialEq, Eq, Hash, serde::Serialize, serde::Deserialize)]
pub enum Mutation {
    Set(u16, u8),
    Insert(u16, u8),
    Delete(u16),
    Truncate(u16),
    Count(u8, u16),
    Splice(u16, u16, u8),
    Bump(u16, bool),
}

pub fn mutation() -> BoxedStrategy<Mutation> {
    prop_oneof![
        4 => (any::<u16>(), gen::u8b()).prop_map(|(i, v)| Mutation::Set(i, v)),
        2 => (any::<u16>(), any::<bool>()).prop_map(|(i, up)| Mutation::Bump(i, up)),
        1 => (any::<u16>(), gen::u8b()).prop_map(|(i, v)| Mutation::Insert(i, v)),
        1 => any::<u16>().prop_map(Mutation::Delete),
        1 => any::<u16>().prop_map(Mutation::Truncate),
        1 => (0u8..4, gen::u16b()).prop_map(|(c, v)| Mutation::Count(c, v)),
        1 => (any::<u16>(), any::<u16>(), 1u8..32).prop_map(|(a, b, n)| Mutation::Splice(a, b, n)),
    ]
    .boxed()
}

pub fn apply_mutations(m: &mut Vec<u8>, muts: &[Mutation]) {
    for mu in muts {
        if m.is_empty() {
            return;
        }
        let n = m.len();
        match mu {
            Mutation::Set(i, v) => m[gen::pick(*i, n)] = *v,
            Mutation::Bump(i, up) => {
                let k = gen::pick(*i, n);
                m[k] = if *up { m[k].wrapping_add(1) } else { m[k].wrapping_sub(1) };
            }
            Mutation::Insert(i, v) => m.insert(gen::pick(*i, n), *v),
            Mutation::Delete(i) => {
                m.remove(gen::pick(*i, n));
            }
            Mutation::Truncate(i) => m.truncate(gen::pick(*i, n)),
            Mutation::Count(c, v) => {
                if n >= 12 {
                    let o = 4 + 2 * (*c as usize);
                    m[o..o + 2].copy_from_slice(&v.to_be_bytes());
                }
            }
            Mutation::Splice(a, b, len) => {
                let src = gen::pick(*a, n);
                let dst = gen::pick(*b, n);
                let l = (*len as usize).min(n - src).min(n - dst);
                let chunk = m[src..src + l].to_vec();
                m[dst..dst + l].copy_from_slice(&chunk);
            }
        }
    }
}

pub type Mutated = (APacket, Vec<u8>, Vec<Mutation>);

pub fn mutated_strategy(t: Tier) -> BoxedStrategy<Mutated> {
    (gen::apacket(t.pick(3, 5)), vec(any::<u8>(), 0..8), vec(mutation(), 0..8)).boxed()
}

pub fn render_mutated(input: &Mutated) -> Vec<u8> {
    let (p, choices, muts) = input;
    let opts = if choices.is_empty() { EncOpts::plain() } else { EncOpts::foreign(choices.clone()) };
    let mut m = encode_message(p, &opts);
    apply_mutations(&mut m, muts);
    m
}

fn check_mutated(input: &Mutated, case: &mut Case) -> Result<(), Fail> {
    let m = render_mutated(input);
    case.class(format!("mutations:{}", input.2.len().min(4)));
    check_bytes(&Bytes(m), case)
}

pub fn def() -> CheckDef {
    CheckDef {
        id: "C01",
        rule: "byte strings fed to Packet::parse and to the 8 header-peek functions under panic capture, a per-thread heap meter (bound 64 KiB + 1024*len; hard cap 1 GiB) and a thread-CPU-time watchdog (5 s, confirmed at 20 s): (1) every truncation and every single-byte perturbation {-1,+1,0,0xff,^0x80,|0xc0,&0x3f} plus section-count edits of reference encodings of all 40 types/unknown/NULL/empty in single and multi-record, plain and compressed form, OPT at each additional position, every RDLENGTH value from 0 to natural+2; (1b) for each type (typed, empty, unknown) messages holding 400 / 2500 (5000 thorough) records of that one type in each section; (1c) every sequence of up to 5 records drawn from {A, OPT, OPT with an option, CNAME, empty-RDATA record} in each record section with exact and overstated counts; (2) all buffers of length 0..=4 over 7 symbols and lengths 5..=13; (3) 3 fixed headers, and one whose id octets are label lengths spanning the whole message, x all bodies of length <= 6 (7 thorough) over a 12-symbol alphabet; (4) generated pointer graphs (chains, self/forward/absolute pointers, up to 64 KiB); (5) reference encodings with random compression and 0..8 random mutations. Non-trivial = at least a 12-byte header with Z clear (the parser reaches the sections); distinct by hash of the input",
        assumptions: vec![
            "time is asserted only coarsely (CPU watchdog): the decoder's cost is bounded by the backwards-only pointer rule and the 255-byte name budget, measured maxima are reported under coverage.maxima",
            "heap bound calibrated on the densest legitimate input (a 2-byte pointer expanding to 127 labels: ~515 heap bytes per input byte)",
        ],
        sections: vec![
            Box::new(ReplayOnly { name: "bytes", check: check_bytes }),
            Box::new(EnumSection { name: "cut-perturb", rule: "truncations and perturbations of reference encodings", enumerate: enum_cut_perturb, check: check_bytes, exhaustive: true }),
            Box::new(EnumSection { name: "many-records", rule: "hundreds to thousands of records of one type", enumerate: enum_many, check: check_bytes, exhaustive: true }),
            Box::new(EnumSection { name: "arrangements", rule: "all sequences of up to 5 special records per section", enumerate: enum_arrangements, check: check_bytes, exhaustive: true }),
            Box::new(EnumSection { name: "short", rule: "all short buffers", enumerate: enum_short, check: check_bytes, exhaustive: true }),
            Box::new(EnumSection { name: "bodies", rule: "bounded-exhaustive bodies", enumerate: enum_bodies, check: check_bytes, exhaustive: true }),
            Box::new(PropSection { name: "graphs", rule: "pointer graphs", strategy: graph_strategy, cases: (100_000, 1_000_000), check: check_graph }),
            Box::new(PropSection { name: "mutated", rule: "mutated reference encodings", strategy: mutated_strategy, cases: (400_000, 8_000_000), check: check_mutated }),
        ],
    }
}

//! C02 — build then parse returns the same packet
use super::util::*;
use crate::bridge::*;
use crate::driver::CheckDef;
use crate::ensure;
use crate::gen;
use crate::refmodel::*;
use crate::runner::*;
use proptest::prelude::*;

pub fn classes_of(p: &APacket, case: &mut Case) {
    for r in p.records() {
        match &r.rdata {
            ARData::Typed { code, .. } => case.class(format!("type:{}", type_info(*code).map(|t| t.mnemonic).unwrap_or("?"))),
            ARData::Unknown { .. } => case.class("type:unknown"),
            ARData::Empty { .. } => case.class("type:empty"),
        }
    }
    if p.edns.is_some() {
        case.class("edns");
    }
    let sections = [p.questions.is_empty(), p.answers.is_empty(), p.authorities.is_empty(), p.additionals.is_empty()];
    if sections.iter().filter(|e| !**e).count() >= 2 {
        case.class("multi-section");
    }
    if p.records().any(|r| r.name.0.is_empty()) || p.questions.iter().any(|q| q.name.0.is_empty()) {
        case.class("root-name");
    }
    if p.records().any(|r| r.name.wire_len() >= 250) {
        case.class("long-name");
    }
    if p.records().any(|r| r.name.0.iter().any(|l| std::str::from_utf8(l).is_err())) {
        case.class("non-utf8-label");
    }
}

fn check(p: &APacket, case: &mut Case) -> Result<(), Fail> {
    case.nontrivial = p.n_entries() >= 1;
    classes_of(p, case);
    let route = build_variant((p.id % 3) as u8);
    let pk = lib("build", || build(p))?.map_err(|e| Fail::new("harness:build", e))?;
    drop(route);
    case.class(format!("name-route-{}", p.id % 3));
    let bytes = lib("build_bytes_vec", || pk.build_bytes_vec())?.map_err(|e| Fail::new("c02:build-failed", format!("build_bytes_vec: {:?}", e)))?;
    let back = parse(&bytes)?.map_err(|e| Fail::new("c02:unparseable", format!("output of build_bytes_vec rejected: {:?} ({} bytes: {})", e, bytes.len(), hex(&bytes[..bytes.len().min(200)]))))?;
    let o = lib("observe", || observe(&back))?;
    ensure!(o == *p, "c02:mismatch", "parsed packet differs: {}", diff(p, &o));
    // "Build then parse" also for a packet that has been used before: serialised (both ways) once already, and a
    // clone whose answers were taken out, serialised without them, and put back in the same order
    if p.id % 4 == 1 {
        case.class("used-before");
        let _ = lib("build_bytes_vec_compressed", || pk.build_bytes_vec_compressed())?;
        let again = lib("build_bytes_vec", || pk.build_bytes_vec())?.map_err(|e| Fail::new("c02:build-failed", format!("second build_bytes_vec: {:?}", e)))?;
        let o2 = reparse(&again, "c02:unparseable", "the second output of build_bytes_vec for the same packet")?;
        ensure!(o2 == *p, "c02:mismatch", "the second serialisation of the same packet parses differently: {}", diff(p, &o2));
        let mut edited = pk.clone();
        let taken: Vec<_> = edited.answers.drain(..).collect();
        let _ = lib("build_bytes_vec", || edited.build_bytes_vec())?;
        let _ = lib("build_bytes_vec_compressed", || edited.build_bytes_vec_compressed())?;
        edited.answers.extend(taken);
        let third = lib("build_bytes_vec", || edited.build_bytes_vec())?.map_err(|e| Fail::new("c02:build-failed", format!("build_bytes_vec of a clone whose answers were taken out and put back: {:?}", e)))?;
        let o3 = reparse(&third, "c02:unparseable", "the output for a clone whose answers were taken out and put back")?;
        ensure!(o3 == *p, "c02:mismatch", "a clone whose answers were taken out, serialised without them and put back parses differently: {}", diff(p, &o3));
        // and the packet itself, changed through the public mutators after it was serialised: another response code
        // (across the 4-bit boundary when EDNS data is set), another opcode, and the last question dropped. The
        // next serialisation describes the packet as it is now.
        let mut q = p.clone();
        q.rcode = if p.edns.is_some() { if p.rcode > 15 { 3 } else { 16 } } else { (p.rcode + 1) % 11 };
        q.opcode = NAMED_OPCODES[(NAMED_OPCODES.iter().position(|o| *o == p.opcode).unwrap_or(0) + 1) % NAMED_OPCODES.len()];
        q.questions.pop();
        let mut pk = pk;
        lib("rcode_mut / opcode_mut", || -> Result<(), String> {
            *pk.rcode_mut() = rcode_of(q.rcode)?;
            *pk.opcode_mut() = opcode_of(q.opcode)?;
            pk.questions.pop();
            Ok(())
        })?
        .map_err(|e| Fail::new("harness:build", e))?;
        let fourth = lib("build_bytes_vec", || pk.build_bytes_vec())?.map_err(|e| Fail::new("c02:build-failed", format!("build_bytes_vec after the mutators: {:?}", e)))?;
        let o4 = reparse(&fourth, "c02:unparseable", "the output for a packet changed through the mutators after its first serialisation")?;
        ensure!(o4 == q, "c02:mismatch", "a packet changed through rcode_mut / opcode_mut / questions after its first serialisation parses differently from what it holds now: {}", diff(&q, &o4));
    }
    Ok(())
}

/// the same round trip for packets assembled through the text / map / setter based constructors
fn check_alt(input: &super::c04::AltIn, case: &mut Case) -> Result<(), Fail> {
    let text = super::c04::alt_text(input);
    let alpn = vec!["h2".to_string(), "http/1.1".to_string()];
    // the statement speaks of packets that were assembled: a constructor refusing the value makes no claim
    let pk = match super::c04::build_alt(input, &text, &alpn) {
        Ok(pk) => pk,
        Err(f) if f.sig == "c04:constructor-failed" => {
            case.class("constructor-refused:no-claim");
            return Ok(());
        }
        Err(f) => return Err(f),
    };
    case.nontrivial = text.len() > 254 || !input.2.is_empty();
    let mut model = lib("observe", || observe(&pk))?;
    // an empty TXT is one empty string on the wire (documented aliasing)
    for r in model.answers.iter_mut() {
        if let ARData::Typed { code: 16, fields } = &mut r.rdata {
            if let Val::Strs(v) = &mut fields[0] {
                if v.is_empty() {
                    v.push(Bytes(vec![]));
                }
            }
        }
    }
    let bytes = lib("build_bytes_vec", || pk.build_bytes_vec())?.map_err(|e| Fail::new("c02:build-failed", format!("build_bytes_vec: {:?}", e)))?;
    let back = parse(&bytes)?.map_err(|e| Fail::new("c02:unparseable", format!("output of build_bytes_vec rejected: {:?} (text of {} bytes)", e, text.len())))?;
    let o = lib("observe", || observe(&back))?;
    ensure!(o == model, "c02:mismatch", "parsed packet differs from what was built (text of {} bytes): {}", text.len(), diff(&model, &o));
    Ok(())
}

fn strategy(t: Tier) -> BoxedStrategy<APacket> {
    gen::apacket(t.pick(4, 6))
}

/// large packets (filler records up to 65535 bytes, names beyond offset 16383): only their size differs
fn check_large(s: &gen::Sharing, case: &mut Case) -> Result<(), Fail> {
    let p = s.assemble();
    check(&p, case)?;
    let size = encode_message(&p, &EncOpts::plain()).len();
    case.class(match size {
        0..=512 => "size<=512",
        513..=4096 => "size<=4096",
        4097..=9000 => "size<=9000",
        9001..=16384 => "size<=16384",
        _ => "size>16384",
    });
    case.nontrivial = size > 4096;
    Ok(())
}

pub fn def() -> CheckDef {
    CheckDef {
        id: "C02",
        rule: "proptest: abstract packets over every typed RDATA variant, unknown and empty RDATA, 5 classes, supported QTYPEs + IXFR/AXFR/MAILB/MAILA/ANY, binary labels 1..=63, names <= 255 incl. root, boundary-biased integers, 0..n entries per section, optional EDNS, named opcode/rcode, all flag subsets; built through public constructors, serialised uncompressed, parsed, observed field by field. A section `large` repeats the round trip on suffix-sharing packets with filler records (sizes up to 65535 bytes, classes by size). A further section assembles packets through the other public constructors (TXT::try_from(&str) around multiples of 254 bytes, TXT::try_from(HashMap), with_string, SVCB/HTTPS setters, A/AAAA from std addresses, CharacterString::try_from) and requires the parsed packet to show what the built one shows. Non-trivial = >= 1 question or record; distinct by hash of the abstract packet",
        assumptions: vec![
            "excluded by construction (wire-level aliasing or documented misuse): TXT without strings, NULL with empty data or a typed code, OPT pushed into additional_records, rcode > 15 without EDNS, Reserved opcode/rcode, LOC version != 0, unsorted NSEC windows, character strings > 255, empty labels, labels > 63",
            "observation uses the read-only byte hooks Label::verif_bytes / CharacterString::verif_bytes / TXT::verif_strings",
        ],
        sections: vec![
            Box::new(PropSection {
                name: "roundtrip",
                rule: "build -> build_bytes_vec -> parse -> observe == model",
                strategy,
                cases: (300_000, 4_000_000),
                check,
            }),
            Box::new(PropSection { name: "large", rule: "the same round trip for packets of up to 65535 bytes", strategy: gen::sharing, cases: (40_000, 400_000), check: check_large }),
            Box::new(PropSection {
                name: "constructors",
                rule: "text / map / setter based constructors -> build_bytes_vec -> parse -> same observation",
                strategy: super::c04::alt_strategy,
                cases: (60_000, 600_000),
                check: check_alt,
            }),
        ],
    }
}

pub fn check_pub(input: &APacket, case: &mut Case) -> Result<(), Fail> {
    check(input, case)
}

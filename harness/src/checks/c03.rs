//! C03 — name compression is transparent
use super::util::*;
use crate::bridge::*;
use crate::driver::CheckDef;
use crate::ensure;
use crate::gen::{self, Sharing};
use crate::refmodel::*;
use crate::runner::*;
use proptest::prelude::*;

pub fn size_classes(plain: &[u8], case: &mut Case) {
    if plain.len() > 16384 {
        case.class("over-16k");
        if let Ok(w) = walk(plain) {
            // a name first written above 16383 that is repeated later
            let mut firsts: std::collections::HashMap<Vec<Vec<u8>>, usize> = std::collections::HashMap::new();
            let mut hit = false;
            for r in &w.records {
                let key = r.name.labels.clone();
                if key.is_empty() {
                    continue;
                }
                match firsts.get(&key) {
                    Some(off) if *off > 16383 => hit = true,
                    Some(_) => {}
                    None => {
                        firsts.insert(key, r.off);
                    }
                }
            }
            if hit {
                case.class("repeat-first-seen-above-16383");
            }
        }
    }
}

fn check(s: &Sharing, case: &mut Case) -> Result<(), Fail> {
    let p = s.assemble();
    super::c02::classes_of(&p, case);
    // names by one of three public routes; in a fifth of the packets NSEC windows are stored in descending order
    // (the writers emit them ascending, so the model and the plain form are unaffected)
    let v = (p.id % 3) as u8 | if p.id % 5 == 0 { 4 } else { 0 };
    let route = build_variant(v);
    let pk = lib("build", || build(&p))?.map_err(|e| Fail::new("harness:build", e))?;
    drop(route);
    case.class(format!("build-route-{}", v));
    // the statement relates the compressed form to the plain one: a packet whose plain form is refused, does not
    // parse or does not show the model is C02's business and makes no claim here
    let u = match ser_plain(&pk) {
        Ok(u) => u,
        Err(_) => {
            case.class("plain-form-refused:no-claim");
            return Ok(());
        }
    };
    size_classes(&u, case);
    let ou = match reparse(&u, "c03:plain-unparseable", "plain output") {
        Ok(o) if o == p => o,
        Ok(_) | Err(_) => {
            case.class("plain-round-trip-fails:no-claim");
            return Ok(());
        }
    };
    let c = ser_compressed(&pk).map_err(|f| Fail::new("c03:compressed-failed", f.msg))?;
    case.nontrivial = c.len() < u.len();
    ensure!(c.len() <= u.len(), "c03:longer", "compressed output is {} bytes, plain {}", c.len(), u.len());
    let oc = reparse(&c, "c03:compressed-unparseable", "compressed output")?;
    ensure!(oc == ou, "c03:compressed-mismatch", "compressed output parses differently from the plain output: {}", diff(&ou, &oc));
    // the writer-based entry point on a stream that does not start at 0 (e.g. after a DNS-over-TCP length prefix)
    if s.filler_at % 4 == 1 {
        case.class("non-zero-origin");
        let k = 2 + (s.filler_at as usize % 9);
        let mut cur = std::io::Cursor::new(vec![0xEEu8; k]);
        cur.set_position(k as u64);
        lib("write_compressed_to", || pk.write_compressed_to(&mut cur))?.map_err(|e| Fail::new("c03:compressed-failed", format!("write_compressed_to at offset {}: {:?}", k, e)))?;
        let v = cur.into_inner();
        let ow = reparse(&v[k.min(v.len())..], "c03:compressed-unparseable@origin", "compressed output written at a non-zero stream offset")?;
        ensure!(ow == ou, "c03:compressed-mismatch@origin", "compressed output written at stream offset {} parses differently from the plain output: {}", k, diff(&ou, &ow));
    }
    // "Serialising any packet": also one that was serialised before, and a copy of it that has grown since. A
    // second compressed serialisation of the same value, then a clone with one of its own records appended to the
    // additional section (a repeated owner and repeated RDATA names), both forms again.
    if p.id % 4 == 2 && u.len() < 16000 {
        case.class("serialised-again-and-grown");
        let c2 = ser_compressed(&pk).map_err(|f| Fail::new("c03:compressed-failed", format!("second serialisation: {}", f.msg)))?;
        ensure!(c2.len() <= u.len(), "c03:longer", "second compressed output is {} bytes, plain {}", c2.len(), u.len());
        let oc2 = reparse(&c2, "c03:compressed-unparseable@again", "the second compressed output of the same packet")?;
        ensure!(oc2 == ou, "c03:compressed-mismatch@again", "the second compressed output of the same packet parses differently from the plain output: {}", diff(&ou, &oc2));
        let twin = pk.answers.last().or(pk.name_servers.last()).or(pk.additional_records.first()).cloned();
        if let Some(r) = twin {
            let mut grown = pk.clone();
            grown.additional_records.push(r);
            // the plain form of the grown packet is the yardstick; if it is refused or does not parse, no claim
            if let Ok(u3) = ser_plain(&grown) {
                if let Ok(ou3) = reparse(&u3, "c03:plain-unparseable", "plain output") {
                    let c3 = ser_compressed(&grown).map_err(|f| Fail::new("c03:compressed-failed", format!("grown copy: {}", f.msg)))?;
                    ensure!(c3.len() <= u3.len(), "c03:longer", "compressed output of the grown copy is {} bytes, plain {}", c3.len(), u3.len());
                    let oc3 = reparse(&c3, "c03:compressed-unparseable@grown", "compressed output of a copy that has grown since the first serialisation")?;
                    ensure!(oc3 == ou3, "c03:compressed-mismatch@grown", "compressed output of a copy that has grown since the first serialisation parses differently from its plain output: {}", diff(&ou3, &oc3));
                }
            }
        }
    }
    // the writer-based entry point on a buffer that is being reused: rewound to 0 (or to a small offset) while it
    // still holds an earlier, longer message
    if s.filler_at % 4 == 3 && u.len() < 8192 {
        case.class("reused-buffer");
        let k = if s.filler_at % 8 == 3 { 0 } else { 2 + (s.filler_at as usize % 9) };
        let stale = k + u.len() + 1 + (s.filler_at as usize % 300);
        let mut cur = std::io::Cursor::new((0..stale).map(|j| 0x30u8 ^ (j as u8)).collect::<Vec<u8>>());
        cur.set_position(k as u64);
        lib("write_compressed_to", || pk.write_compressed_to(&mut cur))?.map_err(|e| Fail::new("c03:compressed-failed", format!("write_compressed_to into a reused buffer at offset {}: {:?}", k, e)))?;
        let pos = cur.position() as usize;
        let v = cur.into_inner();
        // Where the message ends: as many octets as the vector-returning entry point produced, or where the cursor
        // was left (that the two entry points agree octet for octet is C04's statement, and the final position is
        // nobody's; here only what the octets mean is compared, and either reading that shows the packet is accepted)
        let ends: Vec<usize> = [k + c.len(), pos].into_iter().filter(|e| *e > k && *e <= v.len()).collect();
        ensure!(!ends.is_empty(), "c03:compressed-unparseable@reused", "the reused buffer holds {} octets, the cursor stands at {}, the message alone has {}", v.len(), pos, c.len());
        let mut verdicts = ends.iter().map(|e| {
            let ow = reparse(&v[k..*e], "c03:compressed-unparseable@reused", "compressed output written into a reused buffer")?;
            ensure!(ow == ou, "c03:compressed-mismatch@reused", "compressed output written into a reused buffer (offset {}, {} stale octets) parses differently from the plain output: {}", k, stale, diff(&ou, &ow));
            Ok(())
        });
        let first = verdicts.next().unwrap();
        if first.is_err() && !verdicts.any(|r: Result<(), Fail>| r.is_ok()) {
            return first;
        }
    }
    // and on a writer that accepts only a few bytes per call (any std::io::Write may do that)
    if s.filler_at % 4 == 2 && u.len() < 8192 {
        case.class("short-write-writer");
        let chunk = 1 + (s.filler_at as usize % 3);
        let mut w = super::c04::ChunkedWriter { inner: std::io::Cursor::new(Vec::new()), chunk };
        lib("write_compressed_to", || pk.write_compressed_to(&mut w))?.map_err(|e| Fail::new("c03:compressed-failed", format!("write_compressed_to on a writer accepting {} bytes per call: {:?}", chunk, e)))?;
        let v = w.inner.into_inner();
        let ow = reparse(&v, "c03:compressed-unparseable@short-writes", "compressed output written through a short-write writer")?;
        ensure!(ow == ou, "c03:compressed-mismatch@short-writes", "compressed output written through a writer accepting {} bytes per call parses differently from the plain output: {}", chunk, diff(&ou, &ow));
    }
    Ok(())
}

fn strategy(t: Tier) -> BoxedStrategy<Sharing> {
    gen::sharing(t)
}

pub fn def() -> CheckDef {
    CheckDef {
        id: "C03",
        rule: "proptest: packets as in C02 whose owner, question and RDATA names come from suffix trees over a tiny label pool (constant sharing; pairs differing only in a leading or trailing label), with filler records that move later names just below / at / above offset 16383 and up to 65535 bytes; oracle observe(parse(compressed)) == observe(parse(plain)) and len(compressed) <= len(plain), claimed for packets whose plain form round-trips to the model (otherwise the defect is C02's and no claim is made here); a quarter of the cases also write the compressed form at a non-zero stream offset, a quarter are serialised a second time and once more as a clone that has grown by a record, a quarter are written into a reused buffer that still holds a longer stale message (rewound to 0 or to a small offset), another quarter through a writer accepting 1..3 bytes per call. Non-trivial = the compressed output is strictly shorter (at least one pointer emitted); classes report messages over 16 KiB and names first written above 16383 that repeat",
        assumptions: vec!["same exclusions as C02"],
        sections: vec![Box::new(PropSection { name: "transparent", rule: "compressed == plain == model", strategy, cases: (200_000, 1_500_000), check })],
    }
}

pub fn check_pub(input: &Sharing, case: &mut Case) -> Result<(), Fail> {
    check(input, case)
}

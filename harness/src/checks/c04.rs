//! C04 — serialised messages are well-framed and all writers agree
use super::util::*;
use crate::bridge::*;
use crate::driver::CheckDef;
use crate::ensure;
use crate::gen::{self, Sharing};
use crate::refmodel::*;
use crate::runner::*;
use proptest::prelude::*;
use simple_dns::Packet;
use std::io::Cursor;

/// A growable writer that accepts at most `chunk` bytes per `write` call (legal for any `Write`:
/// `write` may be short, `write_all` retries). Pointers and back-patched lengths must not depend on it.
pub struct ChunkedWriter {
    pub inner: Cursor<Vec<u8>>,
    pub chunk: usize,
}

impl std::io::Write for ChunkedWriter {
    fn write(&mut self, buf: &[u8]) -> std::io::Result<usize> {
        let n = buf.len().min(self.chunk);
        self.inner.write(&buf[..n])
    }
    fn flush(&mut self) -> std::io::Result<()> {
        self.inner.flush()
    }
}

impl std::io::Seek for ChunkedWriter {
    fn seek(&mut self, pos: std::io::SeekFrom) -> std::io::Result<u64> {
        self.inner.seek(pos)
    }
}

/// framing oracle on one serialised message
pub fn check_framing(out: &[u8], p: &APacket, what: &str) -> Result<(), Fail> {
    match framing_verdict(out, p, what) {
        // Where a compression pointer leads is C03's / C07's statement. If the verdict hinges on a name (a pointer that
        // leads nowhere sensible), the message is framed a second time with every name ending at its first pointer:
        // counts, entry boundaries and RDLENGTH against the in-place size of the content are all that framing is.
        Err(f) if f.sig == "c04:framing" || f.sig == "c04:rdlength" => with_in_place_names(|| framing_verdict(out, p, what)),
        r => r,
    }
}

fn framing_verdict(out: &[u8], p: &APacket, what: &str) -> Result<(), Fail> {
    ensure!(out.len() >= 12, "c04:short", "{}: {} bytes", what, out.len());
    let w = walk(out).map_err(|e| Fail::new("c04:framing", format!("{}: the envelope walker fails: {:?}", what, e)))?;
    let want = [p.questions.len(), p.answers.len(), p.authorities.len(), p.additionals.len() + p.edns.is_some() as usize];
    for k in 0..4 {
        ensure!(w.counts[k] as usize == want[k], "c04:count", "{}: header count #{} is {} but {} entries were supplied", what, k, w.counts[k], want[k]);
    }
    ensure!(w.end == out.len(), "c04:trailing", "{}: entries end at {} but {} bytes were written", what, w.end, out.len());
    // every RDATA consumes exactly RDLENGTH
    for (i, r) in w.records.iter().enumerate() {
        match decode_record(out, r) {
            Ok((_, Fill::Exact)) => {}
            Ok((_, Fill::Surplus(n))) => return Err(Fail::new("c04:rdlength", format!("{}: record #{} (type {}) RDLENGTH {} is {} more than its content", what, i, r.rtype, r.rdlen, n))),
            Err(DecErr::Overrun) => return Err(Fail::new("c04:rdlength", format!("{}: record #{} (type {}) content does not fit RDLENGTH {}", what, i, r.rtype, r.rdlen))),
            // structural rules of a type (key order, window order, ...) are C10's business, not framing
            Err(_) => {}
        }
    }
    let opts = w.records.iter().filter(|r| r.rtype == 41).count();
    ensure!(opts == p.edns.is_some() as usize, "c04:opt-count", "{}: {} OPT records written", what, opts);
    Ok(())
}

fn write_err_ok(r: Result<simple_dns::Result<()>, Fail>, what: &str) -> Result<bool, Fail> {
    match r? {
        Ok(()) => Ok(true),
        // which error is not stated: any Err is "an error was reported"
        Err(_) => {
            let _ = what;
            Ok(false)
        }
    }
}

/// all writer configurations for one packet; `refp`/`refc` are the vector-returning outputs
pub fn writers(pk: &Packet, refp: &[u8], refc: &[u8], k: usize, case: &mut Case, sweep_all: bool) -> Result<(), Fail> {
    let mut n = 0u64;
    // --- Vec<u8> (Write only)
    {
        let mut v: Vec<u8> = vec![0xEE; k];
        let ok = write_err_ok(lib("write_to(Vec)", || pk.write_to(&mut v)), "write_to(Vec)")?;
        ensure!(ok, "c04:vec-failed", "write_to on a Vec failed");
        ensure!(&v[k..] == refp && v[..k].iter().all(|b| *b == 0xEE), "c04:vec-differs", "write_to(Vec with {} bytes) differs from build_bytes_vec", k);
        n += 1;
    }
    // --- growable cursors
    for (compressed, reference) in [(false, refp), (true, refc)] {
        for start in [0usize, 2, k] {
            for prefilled in [false, true] {
                let storage = if prefilled { vec![0xEEu8; start + reference.len() + 37] } else { Vec::new() };
                let total = storage.len();
                let mut cur = Cursor::new(storage);
                cur.set_position(start as u64);
                let what = format!("{}(Cursor<Vec> at {}{})", if compressed { "write_compressed_to" } else { "write_to" }, start, if prefilled { ", pre-filled" } else { "" });
                let r = if compressed { lib(&what, || pk.write_compressed_to(&mut cur)) } else { lib(&what, || pk.write_to(&mut cur)) };
                let ok = write_err_ok(r, &what)?;
                ensure!(ok, "c04:cursor-failed", "{} failed", what);
                let v = cur.into_inner();
                ensure!(v.len() >= start + reference.len(), "c04:cursor-short", "{}: storage has {} bytes, expected at least {}", what, v.len(), start + reference.len());
                if &v[start..start + reference.len()] != reference {
                    let at = (0..reference.len()).find(|i| v[start + i] != reference[*i]).unwrap();
                    return Err(Fail::new(
                        if compressed { "c04:cursor-differs-compressed" } else { "c04:cursor-differs-plain" },
                        format!("{}: byte {} of the message is {:#04x}, the vector-returning entry point wrote {:#04x}", what, at, v[start + at], reference[at]),
                    ));
                }
                if prefilled {
                    ensure!(v.len() == total, "c04:cursor-grew", "{}: storage grew from {} to {}", what, total, v.len());
                    ensure!(v[..start].iter().all(|b| *b == 0xEE), "c04:clobber-before", "{}: bytes before the start offset were modified", what);
                    ensure!(v[start + reference.len()..].iter().all(|b| *b == 0xEE), "c04:clobber-after", "{}: bytes after the message were modified", what);
                } else {
                    ensure!(v.len() == start + reference.len(), "c04:cursor-extra", "{}: {} bytes beyond the message", what, v.len() - start - reference.len());
                }
                n += 1;
            }
        }
    }
    // --- writers that accept only a few bytes per call
    for (compressed, reference) in [(false, refp), (true, refc)] {
        for chunk in [1usize, 3, 7] {
            for start in [0usize, k] {
                let mut w = ChunkedWriter { inner: Cursor::new(vec![0xEEu8; start]), chunk };
                w.inner.set_position(start as u64);
                let what = format!("{}(writer accepting {} bytes per call, at {})", if compressed { "write_compressed_to" } else { "write_to" }, chunk, start);
                let r = if compressed { lib(&what, || pk.write_compressed_to(&mut w)) } else { lib(&what, || pk.write_to(&mut w)) };
                let ok = write_err_ok(r, &what)?;
                ensure!(ok, "c04:chunked-failed", "{} failed", what);
                let v = w.inner.into_inner();
                if v.len() != start + reference.len() || &v[start..] != reference {
                    let at = (0..reference.len().min(v.len().saturating_sub(start))).find(|i| v[start + i] != reference[*i]);
                    return Err(Fail::new(
                        if compressed { "c04:chunked-differs-compressed" } else { "c04:chunked-differs-plain" },
                        format!("{}: {} bytes written, the vector-returning entry point wrote {}; first difference at {:?}", what, v.len().saturating_sub(start), reference.len(), at),
                    ));
                }
                n += 1;
            }
        }
    }
    // --- fixed-size writers of every capacity
    let caps = |len: usize| -> Vec<usize> {
        if sweep_all {
            (0..=len + 2).collect()
        } else {
            let mut c = vec![0, 1, 11, 12, 13, len / 2, len.saturating_sub(2), len.saturating_sub(1), len, len + 1, len + 2];
            c.sort();
            c.dedup();
            c
        }
    };
    for cap in caps(refp.len()) {
        // &mut [u8]
        let mut buf = vec![0xEEu8; cap];
        {
            let mut w: &mut [u8] = &mut buf[..];
            let ok = write_err_ok(lib("write_to(&mut [u8])", || pk.write_to(&mut w)), "write_to(&mut [u8])")?;
            ensure!(ok == (cap >= refp.len()), "c04:slice-result", "write_to(&mut [u8; {}]) returned {} for a {}-byte message", cap, if ok { "Ok" } else { "Err" }, refp.len());
        }
        if cap >= refp.len() {
            ensure!(&buf[..refp.len()] == refp && buf[refp.len()..].iter().all(|b| *b == 0xEE), "c04:slice-differs", "write_to(&mut [u8; {}]) differs", cap);
        }
        // Cursor<&mut [u8]>
        let mut buf = vec![0xEEu8; cap];
        let mut cur = Cursor::new(&mut buf[..]);
        let ok = write_err_ok(lib("write_to(Cursor<&mut [u8]>)", || pk.write_to(&mut cur)), "write_to(Cursor<&mut [u8]>)")?;
        ensure!(ok == (cap >= refp.len()), "c04:slice-result", "write_to(Cursor<&mut [u8; {}]>) returned {} for a {}-byte message", cap, if ok { "Ok" } else { "Err" }, refp.len());
        if ok {
            ensure!(&buf[..refp.len()] == refp && buf[refp.len()..].iter().all(|b| *b == 0xEE), "c04:slice-differs", "write_to(Cursor<&mut [u8; {}]>) differs", cap);
        }
        n += 2;
    }
    for cap in caps(refc.len()) {
        let mut buf = vec![0xEEu8; cap];
        let mut cur = Cursor::new(&mut buf[..]);
        let ok = write_err_ok(lib("write_compressed_to(Cursor<&mut [u8]>)", || pk.write_compressed_to(&mut cur)), "write_compressed_to(Cursor<&mut [u8]>)")?;
        ensure!(ok == (cap >= refc.len()), "c04:slice-result-compressed", "write_compressed_to(Cursor<&mut [u8; {}]>) returned {} for a {}-byte message", cap, if ok { "Ok" } else { "Err" }, refc.len());
        if ok {
            ensure!(&buf[..refc.len()] == refc && buf[refc.len()..].iter().all(|b| *b == 0xEE), "c04:slice-differs-compressed", "write_compressed_to(Cursor<&mut [u8; {}]>) differs", cap);
        }
        n += 1;
    }
    // --- fixed-size cursors that do not start at 0: room for the message exactly, and one byte short
    for (compressed, reference) in [(false, refp), (true, refc)] {
        for short in [0usize, 1] {
            if reference.len() < short {
                continue;
            }
            let cap = k + reference.len() - short;
            let mut buf = vec![0xEEu8; cap];
            let mut cur = Cursor::new(&mut buf[..]);
            cur.set_position(k as u64);
            let what = format!("{}(Cursor<&mut [u8; {}]> at {})", if compressed { "write_compressed_to" } else { "write_to" }, cap, k);
            let r = if compressed { lib(&what, || pk.write_compressed_to(&mut cur)) } else { lib(&what, || pk.write_to(&mut cur)) };
            let ok = write_err_ok(r, &what)?;
            ensure!(ok == (short == 0), "c04:slice-result@origin", "{} returned {} for a {}-byte message", what, if ok { "Ok" } else { "Err" }, reference.len());
            if ok {
                ensure!(&buf[k..] == reference && buf[..k].iter().all(|b| *b == 0xEE), "c04:slice-differs@origin", "{} differs from the vector-returning entry point", what);
            }
            n += 1;
        }
    }
    case.extra_evals += n;
    Ok(())
}

/// (packet, writer start offset k, sweep all capacities?)
pub type In = (Sharing, u16, bool);

fn check(input: &In, case: &mut Case) -> Result<(), Fail> {
    let (s, k, sweep) = input;
    let p = s.assemble();
    // a third of the packets each: names put together from labels, through Name::without, from text
    let route = build_variant((p.id % 3) as u8);
    let pk = lib("build", || build(&p))?.map_err(|e| Fail::new("harness:build", e))?;
    drop(route);
    case.class(format!("name-route-{}", p.id % 3));
    let u = ser_plain(&pk).map_err(|f| Fail::new("c04:plain-failed", f.msg))?;
    let c = ser_compressed(&pk).map_err(|f| Fail::new("c04:compressed-failed", f.msg))?;
    super::c03::size_classes(&u, case);
    case.nontrivial = p.records().count() >= 2 && c.len() < u.len();
    check_framing(&u, &p, "build_bytes_vec")?;
    check_framing(&c, &p, "build_bytes_vec_compressed")?;
    let k = 3 + (*k % 300) as usize;
    let sweep_all = *sweep && u.len() <= 600;
    if sweep_all {
        case.class("capacity-sweep");
    }
    writers(&pk, &u, &c, k, case, sweep_all)?;
    // One packet in eight is also written with an extended response code (BADVERS) and NO OPT record set. The
    // documentation asks for an OPT there, so what becomes of the code is no claim (C02 / C09 stay out), but the
    // statement on framing has no such exception: whatever is emitted must count what it writes. A library that
    // adds an OPT of its own accord is accepted (it must then count it); one that refuses to write makes no claim.
    if p.id % 8 == 5 {
        let mut q = p.clone();
        q.rcode = 16;
        q.edns = None;
        let route = build_variant((p.id % 3) as u8);
        let pk = lib("build", || build(&q))?.map_err(|e| Fail::new("harness:build", e))?;
        drop(route);
        case.class("extended-rcode-without-opt");
        let (Ok(u), Ok(c)) = (ser_plain(&pk), ser_compressed(&pk)) else {
            case.class("extended-rcode-without-opt:refused:no-claim");
            return Ok(());
        };
        check_framing_unannounced(&u, &q, "build_bytes_vec (extended rcode, no OPT set)")?;
        check_framing_unannounced(&c, &q, "build_bytes_vec_compressed (extended rcode, no OPT set)")?;
        writers(&pk, &u, &c, k, case, false)?;
    }
    Ok(())
}

/// framing of a packet whose response code needs an OPT that was not supplied: zero or one OPT may be written,
/// and the additional count must say which
fn check_framing_unannounced(out: &[u8], p: &APacket, what: &str) -> Result<(), Fail> {
    let verdict = || -> Result<(), Fail> {
        ensure!(out.len() >= 12, "c04:short", "{}: {} bytes", what, out.len());
        let w = walk(out).map_err(|e| Fail::new("c04:framing", format!("{}: the envelope walker fails: {:?}", what, e)))?;
        let opts = w.records.iter().filter(|r| r.rtype == 41).count();
        ensure!(opts <= 1, "c04:opt-count", "{}: {} OPT records written", what, opts);
        let want = [p.questions.len(), p.answers.len(), p.authorities.len(), p.additionals.len() + opts];
        for k in 0..3 {
            ensure!(w.counts[k] as usize == want[k], "c04:count", "{}: header count #{} is {} but {} entries were supplied", what, k, w.counts[k], want[k]);
        }
        ensure!(
            w.counts[3] as usize == p.additionals.len() || w.counts[3] as usize == p.additionals.len() + 1,
            "c04:count",
            "{}: header count #3 is {} but {} records were supplied (one more if an OPT is added)",
            what,
            w.counts[3],
            p.additionals.len()
        );
        ensure!(w.end == out.len(), "c04:trailing", "{}: entries end at {} but {} bytes were written", what, w.end, out.len());
        ensure!(w.counts[3] as usize == want[3], "c04:count", "{}: header count #3 is {} but {} records (of which {} OPT) were written", what, w.counts[3], want[3], opts);
        Ok(())
    };
    match verdict() {
        Err(f) if f.sig == "c04:framing" => with_in_place_names(verdict),
        r => r,
    }
}

// ---- packets assembled through the other public constructors (text / map / setter based)

/// (text length selector, character stream, attribute entries, SVCB setter mask, address bytes, trailing record?)
pub type AltIn = (u16, Vec<u8>, Vec<(String, Option<String>)>, u8, Vec<u8>, bool);

pub fn alt_strategy(_t: Tier) -> BoxedStrategy<AltIn> {
    use proptest::collection::vec;
    (
        prop_oneof![4 => (0u16..6, -3i16..=3).prop_map(|(k, d)| ((k * 254) as i32 + d as i32).max(0) as u16), 1 => 0u16..1400],
        vec(any::<u8>(), 1..32),
        vec(("[a-z]{1,6}", proptest::option::of("[a-z0-9]{0,12}")), 0..4),
        any::<u8>(),
        vec(any::<u8>(), 20),
        any::<bool>(),
    )
        .boxed()
}

pub fn build_alt<'a>(input: &'a AltIn, text: &'a str, alpn: &'a [String]) -> Result<Packet<'a>, Fail> {
    use simple_dns::rdata::*;
    use simple_dns::{CharacterString, Name, Question, ResourceRecord, CLASS, TYPE};
    use std::convert::TryFrom;
    let (_, _, attrs, mask, ip, trailing) = input;
    let e = |what: &str, err: simple_dns::SimpleDnsError| Fail::new("c04:constructor-failed", format!("{}: {:?}", what, err));
    let owner = Name::new("host.example.local").map_err(|x| e("Name::new", x))?;
    let mut pk = Packet::new_query(0x0a0b).into_reply();
    pk.questions.push(Question::new(Name::new_unchecked("example.local"), TYPE::TXT.into(), CLASS::IN.into(), false));
    // TXT from text, from a map, and with_string
    pk.answers.push(ResourceRecord::new(owner.clone(), CLASS::IN, 120, RData::TXT(TXT::try_from(text).map_err(|x| e("TXT::try_from(&str)", x))?)));
    let map: std::collections::HashMap<String, Option<String>> = attrs.iter().cloned().collect();
    pk.answers.push(ResourceRecord::new(owner.clone(), CLASS::IN, 120, RData::TXT(TXT::try_from(map).map_err(|x| e("TXT::try_from(map)", x))?)));
    let mut t = TXT::new();
    for (k, _) in attrs {
        t = t.with_string(k).map_err(|x| e("with_string", x))?;
    }
    pk.answers.push(ResourceRecord::new(owner.clone(), CLASS::IN, 120, RData::TXT(t)).to_cache_flush_record());
    // SVCB / HTTPS through the typed setters
    let mut svcb = SVCB::new((*mask & 1) as u16, Name::new_unchecked("svc.example.local"));
    if mask & 2 != 0 {
        svcb.set_mandatory([1u16, 3].into_iter()).map_err(|x| e("set_mandatory", x))?;
    }
    if mask & 4 != 0 {
        let ids: Vec<CharacterString> = alpn.iter().map(|a| CharacterString::try_from(a.as_str())).collect::<Result<_, _>>().map_err(|x| e("CharacterString::try_from", x))?;
        svcb.set_alpn(ids).map_err(|x| e("set_alpn", x))?;
    }
    if mask & 8 != 0 {
        svcb.set_no_default_alpn();
    }
    if mask & 16 != 0 {
        svcb.set_port(u16::from_be_bytes([ip[0], ip[1]]));
    }
    if mask & 32 != 0 {
        svcb.set_ipv4hint([u32::from_be_bytes([ip[0], ip[1], ip[2], ip[3]]), 1]).map_err(|x| e("set_ipv4hint", x))?;
    }
    if mask & 64 != 0 {
        svcb.set_ipv6hint([u128::from_be_bytes(ip[4..20].try_into().unwrap())]).map_err(|x| e("set_ipv6hint", x))?;
    }
    pk.additional_records.push(ResourceRecord::new(owner.clone(), CLASS::IN, 1, if mask & 128 != 0 { RData::HTTPS(HTTPS(svcb)) } else { RData::SVCB(svcb) }));
    // addresses from std types, HINFO from strings
    let v4 = std::net::Ipv4Addr::new(ip[0], ip[1], ip[2], ip[3]);
    let v6 = std::net::Ipv6Addr::from(<[u8; 16]>::try_from(&ip[4..20]).unwrap());
    pk.additional_records.push(ResourceRecord::new(owner.clone(), CLASS::IN, 5, RData::A(A::from(v4))));
    pk.additional_records.push(ResourceRecord::new(owner.clone(), CLASS::IN, 5, RData::AAAA(AAAA::from(v6))));
    pk.name_servers.push(ResourceRecord::new(
        owner.clone(),
        CLASS::CH,
        9,
        RData::HINFO(HINFO { cpu: CharacterString::try_from(String::from("cpu")).map_err(|x| e("try_from(String)", x))?, os: CharacterString::try_from("").map_err(|x| e("try_from(&str)", x))? }),
    ));
    if *trailing {
        pk.additional_records.push(ResourceRecord::new(Name::new_unchecked("example.local"), CLASS::IN, 5, RData::NS(NS(owner))));
    }
    Ok(pk)
}

pub fn alt_text(input: &AltIn) -> String {
    let pool = ['a', 'z', '=', ';', 'é', '漢', '😀', ' '];
    let mut s = String::new();
    let mut i = 0;
    while s.len() < input.0 as usize {
        let c = pool[input.1[i % input.1.len()] as usize % pool.len()];
        i += 1;
        if s.len() + c.len_utf8() > input.0 as usize {
            s.push('x');
        } else {
            s.push(c);
        }
    }
    s
}

fn check_alt(input: &AltIn, case: &mut Case) -> Result<(), Fail> {
    let text = alt_text(input);
    let alpn = vec!["h2".to_string(), "h3".to_string()];
    // a constructor that refuses the value leaves nothing to frame: no claim
    let pk = match build_alt(input, &text, &alpn) {
        Ok(pk) => pk,
        Err(f) if f.sig == "c04:constructor-failed" => {
            case.class("constructor-refused:no-claim");
            return Ok(());
        }
        Err(f) => return Err(f),
    };
    case.nontrivial = text.len() > 254 || !input.2.is_empty();
    if text.len() > 254 {
        case.class("multi-chunk-text");
    }
    let model = lib("observe", || observe(&pk))?;
    let u = ser_plain(&pk).map_err(|f| Fail::new("c04:plain-failed", f.msg))?;
    let c = ser_compressed(&pk).map_err(|f| Fail::new("c04:compressed-failed", f.msg))?;
    check_framing(&u, &model, "build_bytes_vec (text/map/setter constructors)")?;
    check_framing(&c, &model, "build_bytes_vec_compressed (text/map/setter constructors)")?;
    // an empty TXT is written as one empty string: compare after that normalisation
    let norm = |mut p: APacket| {
        for r in p.answers.iter_mut().chain(p.authorities.iter_mut()).chain(p.additionals.iter_mut()) {
            if let ARData::Typed { code: 16, fields } = &mut r.rdata {
                if let Val::Strs(v) = &mut fields[0] {
                    if v.is_empty() {
                        v.push(crate::runner::Bytes(vec![]));
                    }
                }
            }
        }
        p
    };
    // (whether these outputs parse back to what was built is C02's `constructors` section, not framing)
    let _ = norm;
    writers(&pk, &u, &c, 5, case, false)
}

/// packets obtained from the parser (stray / twin OPT records, any codes, foreign compression) go through
/// the same framing and writer oracles; the model is what the parsed packet shows
fn check_reparsed(input: &super::c11::In, case: &mut Case) -> Result<(), Fail> {
    let m = super::c11::render(input);
    let Some(pk) = parse_if_accepted(&m, case) else { return Ok(()) };
    let model = lib("observe", || observe(&pk))?;
    case.nontrivial = model.records().count() >= 2;
    let u = ser_plain(&pk).map_err(|f| Fail::new("c04:plain-failed", f.msg))?;
    let c = ser_compressed(&pk).map_err(|f| Fail::new("c04:compressed-failed", f.msg))?;
    // the framing oracle counts OPT records: the EDNS record plus every stray one
    let opts_in_sections = model.records().filter(|r| r.rdata.code() == 41).count();
    let frame = |out: &[u8], what: &str| -> Result<(), Fail> {
        let w = walk(out).map_err(|e| Fail::new("c04:framing", format!("{}: the envelope walker fails: {:?}", what, e)))?;
        let want = [model.questions.len(), model.answers.len(), model.authorities.len(), model.additionals.len() + model.edns.is_some() as usize];
        for k in 0..4 {
            ensure!(w.counts[k] as usize == want[k], "c04:count", "{}: header count #{} is {} but the packet holds {} entries", what, k, w.counts[k], want[k]);
        }
        ensure!(w.end == out.len(), "c04:trailing", "{}: entries end at {} but {} bytes were written", what, w.end, out.len());
        let opts = w.records.iter().filter(|r| r.rtype == 41).count();
        ensure!(opts == opts_in_sections + model.edns.is_some() as usize, "c04:opt-count", "{}: {} OPT records written, the packet holds {}", what, opts, opts_in_sections + model.edns.is_some() as usize);
        Ok(())
    };
    for (out, what) in [(&u, "build_bytes_vec of a parsed packet"), (&c, "build_bytes_vec_compressed of a parsed packet")] {
        match frame(out, what) {
            Err(f) if f.sig == "c04:framing" => with_in_place_names(|| frame(out, what))?,
            r => r?,
        }
    }
    writers(&pk, &u, &c, 4, case, false)
}

fn strategy(t: Tier) -> BoxedStrategy<In> {
    (gen::sharing(t), any::<u16>(), proptest::bool::weighted(0.15)).boxed()
}

pub fn def() -> CheckDef {
    CheckDef {
        id: "C04",
        rule: "proptest: suffix-sharing packets (as C03) x {plain, compressed} x writer configurations: Vec (plain), growable cursor at offset 0 / 2 / k over empty and over 0xEE-pre-filled storage longer than the message, writers accepting only 1 / 3 / 7 bytes per write call (at offset 0 and k), &mut [u8] and Cursor<&mut [u8]> of capacities 0..=len+2 (every capacity for 15% of the packets up to 600 bytes, 11 boundary capacities otherwise). Oracles: independent envelope walker (counts == entries supplied, EDNS counted once, entries end exactly at the end, every RDATA decodes to exactly RDLENGTH by the schema); byte equality with the vector-returning entry points, untouched bytes before/after; Err(FailedToWrite) iff capacity < len. A section `reparsed` sends packets obtained from the parser (foreign compression, stray and twin OPT records, any opcode / rcode) through the same framing and writer oracles. Another section builds packets through the other public constructors (TXT::try_from(&str) around multiples of 254 bytes, TXT::try_from(HashMap), with_string, the SVCB/HTTPS setters, A/AAAA from std addresses, CharacterString::try_from, to_cache_flush_record, into_reply) and applies the same framing, writer and re-parse oracles. Non-trivial = >= 2 records and at least one pointer; evaluations count writer configurations",
        assumptions: vec!["same exclusions as C02", "the final cursor position is not part of the statement and is not checked"],
        sections: vec![
            Box::new(PropSection { name: "writers", rule: "framing and writer agreement", strategy, cases: (40_000, 400_000), check }),
            Box::new(PropSection { name: "reparsed", rule: "packets obtained from the parser through every writer", strategy: super::c11::strategy_pub, cases: (30_000, 300_000), check: check_reparsed }),
            Box::new(PropSection { name: "constructors", rule: "packets built through the text / map / setter constructors", strategy: alt_strategy, cases: (40_000, 400_000), check: check_alt }),
        ],
    }
}

pub fn check_pub(input: &In, case: &mut Case) -> Result<(), Fail> {
    check(input, case)
}

//! C04 — serialised messages are well-framed and all writers agree
use super::util::*;
use crate::bridge::*;
use crate::driver::CheckDef;
use crate::ensure;
use crate::gen::{self, Sharing};
use crate::refmodel::*;
use crate::runner::*;
use proptest::prelude::*;
use simple_dns::{Packet, SimpleDnsError};
use std::io::Cursor;

/// framing oracle on one serialised message
pub fn check_framing(out: &[u8], p: &APacket, what: &str) -> Result<(), Fail> {
    ensure!(out.len() >= 12, "c04:short", "{}: {} bytes", what, out.len());
    let w = walk(out).map_err(|e| Fail::new("c04:framing", format!("{}: the envelope walker fails: {:?}", what, e)))?;
    let want = [p.questions.len(), p.answers.len(), p.authorities.len(), p.additionals.len() + p.edns.is_some() as usize];
    for k in 0..4 {
        ensure!(w.counts[k] as usize == want[k], "c04:count", "{}: header count #{} is {} but {} entries were supplied", what, k, w.counts[k], want[k]);
    }
    ensure!(w.end == out.len(), "c04:trailing", "{}: entries end at {} but {} bytes were written", what, w.end, out.len());
    // every RDATA consumes exactly RDLENGTH
    for (i, r) in w.records.iter().enumerate() {
        match decode_record(out, r) {
            Ok((_, Fill::Exact)) => {}
            Ok((_, Fill::Surplus(n))) => return Err(Fail::new("c04:rdlength", format!("{}: record #{} (type {}) RDLENGTH {} is {} more than its content", what, i, r.rtype, r.rdlen, n))),
            Err(e) => return Err(Fail::new("c04:rdlength", format!("{}: record #{} (type {}) content does not fit RDLENGTH {}: {:?}", what, i, r.rtype, r.rdlen, e))),
        }
    }
    let opts = w.records.iter().filter(|r| r.rtype == 41).count();
    ensure!(opts == p.edns.is_some() as usize, "c04:opt-count", "{}: {} OPT records written", what, opts);
    Ok(())
}

fn write_err_ok(r: Result<simple_dns::Result<()>, Fail>, what: &str) -> Result<bool, Fail> {
    match r? {
        Ok(()) => Ok(true),
        Err(SimpleDnsError::FailedToWrite) => Ok(false),
        Err(e) => Err(Fail::new("c04:wrong-error", format!("{}: {:?}", what, e))),
    }
}

/// all writer configurations for one packet; `refp`/`refc` are the vector-returning outputs
fn writers(pk: &Packet, refp: &[u8], refc: &[u8], k: usize, case: &mut Case, sweep_all: bool) -> Result<(), Fail> {
    let mut n = 0u64;
    // --- Vec<u8> (Write only)
    {
        let mut v: Vec<u8> = vec![0xEE; k];
        let ok = write_err_ok(lib("write_to(Vec)", || pk.write_to(&mut v)), "write_to(Vec)")?;
        ensure!(ok, "c04:vec-failed", "write_to on a Vec failed");
        ensure!(&v[k..] == refp && v[..k].iter().all(|b| *b == 0xEE), "c04:vec-differs", "write_to(Vec with {} bytes) differs from build_bytes_vec", k);
        n += 1;
    }
    // --- growable cursors
    for (compressed, reference) in [(false, refp), (true, refc)] {
        for start in [0usize, 2, k] {
            for prefilled in [false, true] {
                let storage = if prefilled { vec![0xEEu8; start + reference.len() + 37] } else { Vec::new() };
                let total = storage.len();
                let mut cur = Cursor::new(storage);
                cur.set_position(start as u64);
                let what = format!("{}(Cursor<Vec> at {}{})", if compressed { "write_compressed_to" } else { "write_to" }, start, if prefilled { ", pre-filled" } else { "" });
                let r = if compressed { lib(&what, || pk.write_compressed_to(&mut cur)) } else { lib(&what, || pk.write_to(&mut cur)) };
                let ok = write_err_ok(r, &what)?;
                ensure!(ok, "c04:cursor-failed", "{} failed", what);
                let v = cur.into_inner();
                ensure!(v.len() >= start + reference.len(), "c04:cursor-short", "{}: storage has {} bytes, expected at least {}", what, v.len(), start + reference.len());
                if &v[start..start + reference.len()] != reference {
                    let at = (0..reference.len()).find(|i| v[start + i] != reference[*i]).unwrap();
                    return Err(Fail::new(
                        if compressed { "c04:cursor-differs-compressed" } else { "c04:cursor-differs-plain" },
                        format!("{}: byte {} of the message is {:#04x}, the vector-returning entry point wrote {:#04x}", what, at, v[start + at], reference[at]),
                    ));
                }
                if prefilled {
                    ensure!(v.len() == total, "c04:cursor-grew", "{}: storage grew from {} to {}", what, total, v.len());
                    ensure!(v[..start].iter().all(|b| *b == 0xEE), "c04:clobber-before", "{}: bytes before the start offset were modified", what);
                    ensure!(v[start + reference.len()..].iter().all(|b| *b == 0xEE), "c04:clobber-after", "{}: bytes after the message were modified", what);
                } else {
                    ensure!(v.len() == start + reference.len(), "c04:cursor-extra", "{}: {} bytes beyond the message", what, v.len() - start - reference.len());
                }
                n += 1;
            }
        }
    }
    // --- fixed-size writers of every capacity
    let caps = |len: usize| -> Vec<usize> {
        if sweep_all {
            (0..=len + 2).collect()
        } else {
            let mut c = vec![0, 1, 11, 12, 13, len / 2, len.saturating_sub(2), len.saturating_sub(1), len, len + 1, len + 2];
            c.sort();
            c.dedup();
            c
        }
    };
    for cap in caps(refp.len()) {
        // &mut [u8]
        let mut buf = vec![0xEEu8; cap];
        {
            let mut w: &mut [u8] = &mut buf[..];
            let ok = write_err_ok(lib("write_to(&mut [u8])", || pk.write_to(&mut w)), "write_to(&mut [u8])")?;
            ensure!(ok == (cap >= refp.len()), "c04:slice-result", "write_to(&mut [u8; {}]) returned {} for a {}-byte message", cap, if ok { "Ok" } else { "Err" }, refp.len());
        }
        if cap >= refp.len() {
            ensure!(&buf[..refp.len()] == refp && buf[refp.len()..].iter().all(|b| *b == 0xEE), "c04:slice-differs", "write_to(&mut [u8; {}]) differs", cap);
        }
        // Cursor<&mut [u8]>
        let mut buf = vec![0xEEu8; cap];
        let mut cur = Cursor::new(&mut buf[..]);
        let ok = write_err_ok(lib("write_to(Cursor<&mut [u8]>)", || pk.write_to(&mut cur)), "write_to(Cursor<&mut [u8]>)")?;
        ensure!(ok == (cap >= refp.len()), "c04:slice-result", "write_to(Cursor<&mut [u8; {}]>) returned {} for a {}-byte message", cap, if ok { "Ok" } else { "Err" }, refp.len());
        if ok {
            ensure!(&buf[..refp.len()] == refp && buf[refp.len()..].iter().all(|b| *b == 0xEE), "c04:slice-differs", "write_to(Cursor<&mut [u8; {}]>) differs", cap);
        }
        n += 2;
    }
    for cap in caps(refc.len()) {
        let mut buf = vec![0xEEu8; cap];
        let mut cur = Cursor::new(&mut buf[..]);
        let ok = write_err_ok(lib("write_compressed_to(Cursor<&mut [u8]>)", || pk.write_compressed_to(&mut cur)), "write_compressed_to(Cursor<&mut [u8]>)")?;
        ensure!(ok == (cap >= refc.len()), "c04:slice-result-compressed", "write_compressed_to(Cursor<&mut [u8; {}]>) returned {} for a {}-byte message", cap, if ok { "Ok" } else { "Err" }, refc.len());
        if ok {
            ensure!(&buf[..refc.len()] == refc && buf[refc.len()..].iter().all(|b| *b == 0xEE), "c04:slice-differs-compressed", "write_compressed_to(Cursor<&mut [u8; {}]>) differs", cap);
        }
        n += 1;
    }
    case.extra_evals += n;
    Ok(())
}

/// (packet, writer start offset k, sweep all capacities?)
pub type In = (Sharing, u16, bool);

fn check(input: &In, case: &mut Case) -> Result<(), Fail> {
    let (s, k, sweep) = input;
    let p = s.assemble();
    let pk = lib("build", || build(&p))?.map_err(|e| Fail::new("harness:build", e))?;
    let u = ser_plain(&pk).map_err(|f| Fail::new("c04:plain-failed", f.msg))?;
    let c = ser_compressed(&pk).map_err(|f| Fail::new("c04:compressed-failed", f.msg))?;
    super::c03::size_classes(&u, case);
    case.nontrivial = p.records().count() >= 2 && c.len() < u.len();
    check_framing(&u, &p, "build_bytes_vec")?;
    check_framing(&c, &p, "build_bytes_vec_compressed")?;
    let k = 3 + (*k % 300) as usize;
    let sweep_all = *sweep && u.len() <= 600;
    if sweep_all {
        case.class("capacity-sweep");
    }
    writers(&pk, &u, &c, k, case, sweep_all)
}

fn strategy(t: Tier) -> BoxedStrategy<In> {
    (gen::sharing(t), any::<u16>(), proptest::bool::weighted(0.15)).boxed()
}

pub fn def() -> CheckDef {
    CheckDef {
        id: "C04",
        rule: "proptest: suffix-sharing packets (as C03) x {plain, compressed} x writer configurations: Vec (plain), growable cursor at offset 0 / 2 / k over empty and over 0xEE-pre-filled storage longer than the message, &mut [u8] and Cursor<&mut [u8]> of capacities 0..=len+2 (every capacity for 15% of the packets up to 600 bytes, 11 boundary capacities otherwise). Oracles: independent envelope walker (counts == entries supplied, EDNS counted once, entries end exactly at the end, every RDATA decodes to exactly RDLENGTH by the schema); byte equality with the vector-returning entry points, untouched bytes before/after; Err(FailedToWrite) iff capacity < len. Non-trivial = >= 2 records and at least one pointer; evaluations count writer configurations",
        assumptions: vec!["same exclusions as C02", "the final cursor position is not part of the statement and is not checked"],
        sections: vec![Box::new(PropSection { name: "writers", rule: "framing and writer agreement", strategy, cases: (40_000, 400_000), check })],
    }
}

pub fn check_pub(input: &In, case: &mut Case) -> Result<(), Fail> {
    check(input, case)
}

//! C05 — parsing honours the record framing of the message
use super::util::*;
use crate::bridge::*;
use crate::driver::CheckDef;
use crate::gen;
use crate::refmodel::*;
use crate::runner::*;
use proptest::collection::vec;
use proptest::prelude::*;

/// The framing oracle on arbitrary bytes. Returns (library accepted, reference verdict class).
pub fn framing_oracle(msg: &[u8], case: &mut Case) -> Result<bool, Fail> {
    let verdict = decode_message(msg);
    let got = parse(msg)?;
    match verdict {
        // a name that breaks a name rule (reserved label type, label / name length, pointer cycle or range) without
        // running past the end of the message is C06's subject, not framing
        Err(MsgErr::Walk(WalkErr::Name(ne))) if !matches!(ne, NameErr::Truncated) => {
            case.class("name-breaks-a-name-rule:no-claim");
            Ok(false)
        }
        Err(MsgErr::Walk(e)) => {
            case.class(format!("walker:{:?}", e).split('(').next().unwrap().to_string());
            if let Ok(p) = &got {
                return Err(Fail::new(
                    "c05:accepts-overrun",
                    format!("the envelope walker fails with {:?} (counts or lengths run past the end, or a name is invalid) but the library returned {} questions / {} records; message {}", e, p.questions.len(), p.answers.len() + p.name_servers.len() + p.additional_records.len(), hex(&msg[..msg.len().min(160)])),
                ));
            }
            Ok(false)
        }
        // a structural rule of the type (key order, window order, LOC version, a bad embedded name) is not framing:
        // C10 / C06 decide those; only content that does not fit its frame is judged here
        Err(MsgErr::Rdata(_, e)) if !matches!(e, DecErr::Overrun) => {
            case.class("content-breaks-a-type-rule:no-claim");
            Ok(false)
        }
        Err(MsgErr::Rdata(i, e)) => {
            case.class("content-overruns-frame");
            if got.is_ok() {
                return Err(Fail::new(
                    "c05:reads-outside-frame",
                    format!("record #{}: its typed content cannot be decoded inside its RDLENGTH bytes ({:?}) yet the message was accepted; message {}", i, e, hex(&msg[..msg.len().min(160)])),
                ));
            }
            Ok(false)
        }
        Ok((want, fills)) => {
            let surplus = fills.iter().any(|f| *f != Fill::Exact);
            case.class(if surplus { "ref-ok-surplus" } else { "ref-ok-exact" });
            match got {
                Err(_) => {
                    case.class("library-rejects");
                    Ok(false)
                }
                Ok(p) => {
                    let o = lib("observe", || observe(&p))?;
                    let mut want = as_library_shows(want);
                    // (which octet of the OPT entry's TTL is shown as the EDNS version is C09's statement)
                    if let (Some(we), Some(oe)) = (want.edns.as_mut(), o.edns.as_ref()) {
                        we.version = oe.version;
                    }
                    // with several OPT-typed entries the statement does not say which one is shown as the EDNS
                    // data: any choice is accepted as long as every other entry stays where it is
                    let twin_ok = o != want && {
                        let n = opt_entries(msg);
                        n >= 2
                            && (1..n).any(|k| {
                                decode_message_lifting(msg, k)
                                    .map(|(w, _)| {
                                        let mut w = as_library_shows(w);
                                        if let (Some(we), Some(oe)) = (w.edns.as_mut(), o.edns.as_ref()) {
                                            we.version = oe.version;
                                        }
                                        w == o
                                    })
                                    .unwrap_or(false)
                            })
                    };
                    if twin_ok {
                        case.class("several-opt-entries:another-one-shown-as-edns");
                    }
                    if o != want && !twin_ok {
                        let sig = if surplus { "c05:entries-differ-surplus" } else { "c05:entries-differ" };
                        return Err(Fail::new(sig, format!("parsed entries do not correspond to the framed entries: {}; message {}", diff(&want, &o), hex(&msg[..msg.len().min(200)]))));
                    }
                    Ok(true)
                }
            }
        }
    }
}

#[derive(Debug, Clone, PartialEq, Eq, Hash, serde::Serialize, serde::Deserialize)]
pub enum Surplus {
    None,
    Random(Bytes),
    /// the surplus is itself a well-formed A record (root owner): a parser that resumes in the
    /// middle of the frame would read it as the next entry
    EvilRecord(u32),
    /// RDLENGTH smaller than the content by this much
    Shrink(u16),
}

/// (packet, compression choices, per-record tweaks (scaled record index, surplus), count bump (which, extra))
type In = (APacket, Vec<u8>, Vec<(u16, Surplus)>, Option<(u8, u16)>);

fn strategy(t: Tier) -> BoxedStrategy<In> {
    let surplus = prop_oneof![
        2 => Just(Surplus::None),
        3 => vec(any::<u8>(), 1..12).prop_map(|b| Surplus::Random(Bytes(b))),
        3 => any::<u32>().prop_map(Surplus::EvilRecord),
        2 => (1u16..6).prop_map(Surplus::Shrink),
    ];
    (
        gen::apacket(t.pick(3, 5)),
        vec(any::<u8>(), 0..6),
        vec((any::<u16>(), surplus), 0..3),
        proptest::option::weighted(0.1, (0u8..4, 1u16..4)),
    )
        .boxed()
}

pub fn render(input: &In) -> (Vec<u8>, bool) {
    let (p, choices, tweaks, bump) = input;
    let mut opts = if choices.is_empty() { EncOpts::plain() } else { EncOpts::foreign(choices.clone()) };
    let nrec = p.answers.len() + p.authorities.len() + p.additionals.len();
    let mut tweaked_before_last = false;
    if nrec > 0 {
        for (k, s) in tweaks {
            let idx = gen::pick(*k, nrec);
            let (sec, i) = if idx < p.answers.len() {
                (0, idx)
            } else if idx < p.answers.len() + p.authorities.len() {
                (1, idx - p.answers.len())
            } else {
                (2, idx - p.answers.len() - p.authorities.len())
            };
            let tw = match s {
                Surplus::None => continue,
                Surplus::Random(b) => Tweak { surplus: b.clone(), shrink: 0 },
                Surplus::EvilRecord(a) => {
                    let mut r = vec![0, 0, 1, 0, 1, 0, 0, 0, 9, 0, 4];
                    r.extend_from_slice(&a.to_be_bytes());
                    Tweak { surplus: Bytes(r), shrink: 0 }
                }
                Surplus::Shrink(n) => Tweak { surplus: Bytes(vec![]), shrink: *n },
            };
            if idx + 1 < nrec {
                tweaked_before_last = true;
            }
            opts.tweaks.insert((sec, i), tw);
        }
    }
    let mut m = encode_message(p, &opts);
    if let Some((which, extra)) = bump {
        let o = 4 + 2 * (*which as usize);
        let cur = u16::from_be_bytes([m[o], m[o + 1]]);
        m[o..o + 2].copy_from_slice(&cur.wrapping_add(*extra).to_be_bytes());
    }
    (m, tweaked_before_last)
}

fn check(input: &In, case: &mut Case) -> Result<(), Fail> {
    let (m, tweaked) = render(input);
    let nrec = input.0.records().count();
    if input.3.is_some() {
        case.class("count-bumped");
    }
    // One message in four arrives in a receive buffer that held another datagram a moment ago: the same octets with
    // the first label of the first name split differently, cut one octet short (so its parse is refused after names
    // were read), at the same address. What the parser makes of the message must not depend on that.
    let mut reused;
    let m: &[u8] = if m.len() % 4 == 2 && m.len() > 16 && (3..64).contains(&m[12]) {
        case.class("reused-receive-buffer");
        reused = m.clone();
        let l = reused[12];
        reused[12] = 1;
        reused[14] = l - 2;
        let cut = reused.len() - 1;
        let _ = parse(&reused[..cut]);
        reused.copy_from_slice(&m);
        &reused
    } else {
        &m
    };
    let accepted = framing_oracle(m, case)?;
    case.nontrivial = accepted && nrec >= 2 && tweaked;
    if accepted {
        case.class("library-accepts");
    }
    Ok(())
}

/// the same oracle over mutated encodings (shared generator with C01)
fn check_mutated(input: &super::c01::Mutated, case: &mut Case) -> Result<(), Fail> {
    let m = super::c01::render_mutated(input);
    let accepted = framing_oracle(&m, case)?;
    case.nontrivial = accepted && input.0.records().count() >= 2 && !input.2.is_empty();
    Ok(())
}

/// messages that really hold N entries in one section (plus one different entry in the next one)
fn enum_many(_t: Tier, shard: usize, n: usize, f: &mut dyn FnMut((u8, u16)) -> bool) {
    let mut i = 0;
    for section in 0..4u8 {
        for count in crate::gen::sizes_u16(&[0u16, 1, 2, 60, 127, 128, 179, 180, 181, 182, 255, 256, 257, 300, 1000, 4000], 1100) {
            i += 1;
            if mine(i, shard, n) && !f((section, count)) {
                return;
            }
        }
    }
}

fn check_many(input: &(u8, u16), case: &mut Case) -> Result<(), Fail> {
    let (section, count) = *input;
    let mut p = APacket { id: 0x0505, flags: 0x8000, ..Default::default() };
    let owner = AName::from_strs(&["n", "example"]);
    for k in 0..count {
        match section {
            0 => p.questions.push(AQuestion { name: owner.clone(), qtype: 1 + (k % 2) * 15, qclass: 1, unicast: false }),
            s => {
                let r = ARecord { name: owner.clone(), class: 1, cache_flush: k % 7 == 0, ttl: k as u32, rdata: ARData::Typed { code: 1, fields: vec![Val::U32(k as u32)] } };
                match s {
                    1 => p.answers.push(r),
                    2 => p.authorities.push(r),
                    _ => p.additionals.push(r),
                }
            }
        }
    }
    // a sentinel after the big section
    let sentinel = ARecord { name: AName::from_strs(&["sentinel"]), class: 3, cache_flush: false, ttl: 7, rdata: default_typed(16) };
    if section < 3 {
        p.additionals.push(sentinel);
    }
    let m = encode_message(&p, &EncOpts::compressed());
    let accepted = framing_oracle(&m, case)?;
    if !accepted {
        // the statement speaks of messages that parse; a refusal makes no claim
        case.class("many-entries-refused:no-claim");
    }
    case.nontrivial = count >= 2;
    Ok(())
}

/// pointer graphs (names that point into the fixed fields of earlier entries, chains, odd targets): when both
/// the library and the reference decoder accept, the entries must agree
fn check_graph(g: &super::c01::Graph, case: &mut Case) -> Result<(), Fail> {
    let mut g = g.clone();
    g.repeat_last = g.repeat_last.min(40);
    let m = super::c01::render_graph(&g);
    let accepted = framing_oracle(&m, case)?;
    case.nontrivial = accepted && g.frags.len() >= 2;
    Ok(())
}

/// 1..6 entries, mostly well-formed, whose names often end in a pointer to 1..12 bytes before the pointer itself:
/// the bytes walked are the fixed fields of the previous entry and then the pointer's own octets
fn near_self_strategy(_t: Tier) -> BoxedStrategy<super::c01::Graph> {
    use super::c01::{End, Frag, Graph};
    let lab = prop_oneof![3 => vec(any::<u8>(), 1..=2).prop_map(Bytes), 1 => vec(prop_oneof![Just(0u8), Just(1u8), any::<u8>()], 3..=18).prop_map(Bytes)];
    let frag = (
        vec(lab, 0..=2),
        prop_oneof![4 => Just(End::Zero), 2 => any::<u16>().prop_map(End::ToFrag), 1 => Just(End::Prev), 8 => prop_oneof![Just(0u8), Just(0), any::<u8>()].prop_map(End::Back), 1 => (0u16..40).prop_map(End::Abs)],
    )
        .prop_map(|(labels, end)| Frag { labels, end });
    (vec(frag, 1..=6), any::<bool>()).prop_map(|(frags, as_questions)| Graph { frags, repeat_last: 0, as_questions, id: 0, tail: 0 }).boxed()
}

/// reference encodings with stray / twin OPT records and malformed NSEC windows (C11's inputs)
fn check_strays(input: &super::c11::In, case: &mut Case) -> Result<(), Fail> {
    let m = super::c11::render(input);
    let accepted = framing_oracle(&m, case)?;
    case.nontrivial = accepted && !input.1.is_empty();
    Ok(())
}

pub fn def() -> CheckDef {
    CheckDef {
        id: "C05",
        rule: "proptest: reference encodings (random foreign compression) of multi-record messages in which chosen records get an RDLENGTH larger than their typed content (random surplus bytes, or a surplus that is itself a well-formed A record) or smaller than it, followed by further records; header counts larger than the entries present; sections that really hold 0..4000 entries; stray and twin OPT records in any section; plus mutated encodings. Oracle = independent envelope walker + schema decoder confined to each RDLENGTH slice: walker failure => library Err; content not decodable inside its frame => library Err; library Ok => every question/record equals the framed entry (owner, type, class, bit 15, TTL, RDATA decoded from the frame, surplus ignored). Non-trivial = library accepted, >= 2 records and a tweaked RDLENGTH before the last record (mutated: >= 1 mutation)",
        assumptions: vec!["the library may reject for reasons of its own (class, QTYPE, Z bit, surplus): no claim", "unnamed opcode / rcode values are compared as Reserved"],
        sections: vec![
            Box::new(ReplayOnly { name: "fuzz-bytes", check: check_raw }),
            Box::new(PropSection { name: "rdlength", rule: "RDLENGTH vs content mismatches", strategy, cases: (300_000, 3_000_000), check }),
            Box::new(EnumSection { name: "many-entries", rule: "sections holding 0..4000 entries", enumerate: enum_many, check: check_many, exhaustive: true }),
            Box::new(PropSection { name: "graphs", rule: "pointer graphs: names pointing into earlier entries' fixed fields", strategy: super::c01::graph_strategy, cases: (50_000, 500_000), check: check_graph }),
            Box::new(PropSection { name: "near-self-pointers", rule: "few entries whose names point a few bytes before themselves", strategy: near_self_strategy, cases: (300_000, 2_000_000), check: check_graph }),
            Box::new(PropSection { name: "strays", rule: "stray / twin OPT records, any opcode and rcode", strategy: super::c11::strategy_pub, cases: (100_000, 1_000_000), check: check_strays }),
            Box::new(PropSection { name: "mutated", rule: "mutated reference encodings", strategy: super::c01::mutated_strategy, cases: (300_000, 3_000_000), check: check_mutated }),
        ],
    }
}

fn check_raw(b: &Bytes, case: &mut Case) -> Result<(), Fail> {
    framing_oracle(b, case).map(|_| ())
}

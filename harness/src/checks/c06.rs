//! C06 — domain names are decoded exactly as RFC 1035 §4.1.4 prescribes
use super::util::*;
use crate::bridge::oname;
use crate::driver::CheckDef;
use crate::ensure;
use crate::gen;
use crate::refmodel::*;
use crate::runner::*;
use proptest::collection::vec;
use proptest::prelude::*;
use simple_dns::Name;

const ALPHA: [u8; 12] = [0, 1, 2, 3, 4, 5, 0x3f, 0x40, 0x80, 0xc0, 0xff, b'a'];

/// compare the library's decoder with the reference decoder on one (buffer, offset)
pub fn compare(buf: &[u8], off: usize, case: &mut Case) -> Result<(), Fail> {
    let r = decode_name(buf, off);
    let l = lib("Name::parse", || Name::verif_parse(buf, off).map(|(n, next)| (oname(&n), next)))?;
    let ctx = || format!("buffer {} offset {}", hex(&buf[..buf.len().min(80)]), off);
    match &r {
        Ok(d) => {
            case.nontrivial = d.hops >= 1 || d.labels.len() >= 2;
            case.class(if d.hops > 0 { "ok-with-pointer" } else { "ok-plain" });
        }
        Err(e) => {
            case.nontrivial = true;
            case.class(format!("err-{:?}", e));
        }
    }
    match (&l, &r) {
        (Ok((labels, next)), Ok(d)) => {
            ensure!(labels == &d.aname(), "c06:labels", "{}: library labels {:?}, RFC decoder {:?}", ctx(), labels, d.aname());
            ensure!(*next == d.next, "c06:cursor", "{}: library resumes at {}, the in-place bytes end at {}", ctx(), next, d.next);
            ensure!(labels.0.iter().all(|x| !x.is_empty() && x.len() <= 63), "c06:label-size", "{}: label outside 1..=63", ctx());
            ensure!(labels.wire_len() <= 255, "c06:name-size", "{}: name of {} wire bytes accepted", ctx(), labels.wire_len());
        }
        (Ok((labels, _)), Err(e)) => {
            return Err(Fail::new(
                format!("c06:accepts-{:?}", e),
                format!("{}: the RFC decoder reports {:?} but the library returned {:?}", ctx(), e, labels),
            ));
        }
        (Err(e), Ok(d)) => {
            // forward pointers are legal to refuse; very long pointer-to-pointer chains too
            if d.all_backward && d.hops <= 32 {
                return Err(Fail::new("c06:rejects-valid", format!("{}: a well-formed name ({:?}, {} hops, all backwards) was rejected: {:?}", ctx(), d.aname(), d.hops, e)));
            }
            case.class("refused-forward-or-long-chain");
        }
        (Err(_), Err(_)) => {}
    }
    Ok(())
}

fn enum_buffers(t: Tier, shard: usize, n: usize, f: &mut dyn FnMut(Bytes) -> bool) {
    let maxlen = t.pick(6, 7);
    let mut idx = 0usize;
    for len in 0..=maxlen {
        for k in 0..12usize.pow(len as u32) {
            idx += 1;
            if !mine(idx, shard, n) {
                continue;
            }
            let mut x = k;
            let mut b = Vec::with_capacity(len);
            for _ in 0..len {
                b.push(ALPHA[x % 12]);
                x /= 12;
            }
            if !f(Bytes(b)) {
                return;
            }
        }
    }
}

fn check_buffer(b: &Bytes, case: &mut Case) -> Result<(), Fail> {
    // every start offset, including the end of the buffer
    let mut agg = Case::default();
    for off in 0..=b.len() {
        let mut c = Case::default();
        compare(b, off, &mut c)?;
        agg.nontrivial |= c.nontrivial;
        agg.classes.extend(c.classes);
    }
    case.nontrivial = agg.nontrivial;
    agg.classes.sort();
    agg.classes.dedup();
    case.classes = agg.classes;
    case.extra_evals = b.len() as u64;
    Ok(())
}

// ---- random name soups: long labels, names around 255 bytes, chains, pointers anywhere

#[derive(Debug, Clone, PartialEq, Eq, Hash, serde::Serialize, serde::Deserialize)]
pub enum Piece {
    Label(Bytes),
    Zero,
    /// pointer to the start of an earlier piece (scaled index)
    PtrPiece(u16),
    PtrAbs(u16),
    Raw(u8),
}

#[derive(Debug, Clone, PartialEq, Eq, Hash, serde::Serialize, serde::Deserialize)]
pub struct Soup {
    pub prefix: u8,
    pub pieces: Vec<Piece>,
}

pub fn render_soup(s: &Soup) -> (Vec<u8>, Vec<usize>) {
    let mut m = vec![0x5au8; (s.prefix % 16) as usize];
    let mut starts = Vec::new();
    for p in &s.pieces {
        starts.push(m.len());
        match p {
            Piece::Label(l) => {
                m.push(l.len() as u8);
                m.extend_from_slice(l);
            }
            Piece::Zero => m.push(0),
            Piece::PtrPiece(k) => {
                let t = starts[gen::pick(*k, starts.len())];
                m.push(0xc0 | ((t >> 8) & 0x3f) as u8);
                m.push(t as u8);
            }
            Piece::PtrAbs(a) => {
                m.push(0xc0 | ((*a >> 8) & 0x3f) as u8);
                m.push(*a as u8);
            }
            Piece::Raw(b) => m.push(*b),
        }
    }
    (m, starts)
}

fn soup_strategy(t: Tier) -> BoxedStrategy<Soup> {
    let lab = prop_oneof![
        6 => vec(any::<u8>(), 1..=4).prop_map(Bytes),
        2 => vec(any::<u8>(), 61..=63).prop_map(Bytes),
        1 => vec(any::<u8>(), 30..=40).prop_map(Bytes),
    ];
    let piece = prop_oneof![
        10 => lab.prop_map(Piece::Label),
        4 => Just(Piece::Zero),
        5 => any::<u16>().prop_map(Piece::PtrPiece),
        1 => prop_oneof![0u16..64, any::<u16>()].prop_map(Piece::PtrAbs),
        1 => prop_oneof![Just(0x40u8), Just(0x80), Just(0x7f), Just(0xbf), any::<u8>()].prop_map(Piece::Raw),
    ];
    (any::<u8>(), vec(piece, 1..t.pick(40, 120))).prop_map(|(prefix, pieces)| Soup { prefix, pieces }).boxed()
}

fn check_soup(s: &Soup, case: &mut Case) -> Result<(), Fail> {
    let (m, starts) = render_soup(s);
    let mut agg = Case::default();
    for off in starts.iter().chain(std::iter::once(&m.len())) {
        let mut c = Case::default();
        compare(&m, *off, &mut c)?;
        agg.nontrivial |= c.nontrivial;
        agg.classes.extend(c.classes);
    }
    agg.classes.sort();
    agg.classes.dedup();
    case.nontrivial = agg.nontrivial;
    case.classes = agg.classes;
    case.extra_evals = starts.len() as u64;
    Ok(())
}

/// names of 253..257 wire bytes, reached directly and through a pointer
fn enum_long(_t: Tier, shard: usize, n: usize, f: &mut dyn FnMut(Soup) -> bool) {
    let mut i = 0;
    for lab in [63usize, 62, 50, 9, 1] {
        for target in 250..=258usize {
            for via_pointer in [false, true] {
                i += 1;
                if !mine(i, shard, n) {
                    continue;
                }
                let mut pieces = Vec::new();
                let mut wire = 1;
                while wire + lab + 1 <= target {
                    pieces.push(Piece::Label(Bytes(vec![b'x'; lab])));
                    wire += lab + 1;
                }
                let rem = target - wire;
                if rem >= 2 {
                    pieces.push(Piece::Label(Bytes(vec![b'y'; rem - 1])));
                }
                pieces.push(Piece::Zero);
                if via_pointer {
                    pieces.push(Piece::Label(Bytes(vec![b'z'])));
                    pieces.push(Piece::PtrPiece(0));
                }
                if !f(Soup { prefix: 12, pieces }) {
                    return;
                }
            }
        }
    }
}

// ---- long chains of strictly backward pointers, and reserved label types followed by enough bytes

/// (labels of the name at the bottom of the chain, hops, decode at an owner-like position?)
fn enum_chains(_t: Tier, shard: usize, n: usize, f: &mut dyn FnMut((u8, u16)) -> bool) {
    let mut i = 0;
    for labels in [0u8, 1, 2, 63, 126, 127] {
        for hops in crate::gen::sizes_u16(&(0u16..=40).chain([62, 63, 64, 65, 100, 126, 127, 128, 129, 200, 252, 253, 254, 255, 256, 257, 300, 511, 512, 1000, 4000]).collect::<Vec<_>>(), 4100) {
            i += 1;
            if mine(i, shard, n) && !f((labels, hops)) {
                return;
            }
        }
    }
}

fn check_chain(input: &(u8, u16), case: &mut Case) -> Result<(), Fail> {
    let (labels, hops) = *input;
    // buffer: [name with `labels` one-byte labels][pointer to it][pointer to that pointer] ... [trailer]
    let mut m: Vec<u8> = vec![0x5a; 3];
    let name_at = m.len();
    for k in 0..labels {
        m.push(1);
        m.push(b'a' + (k % 26));
    }
    m.push(0);
    let mut target = name_at;
    let mut last = name_at;
    for _ in 0..hops {
        last = m.len();
        m.push(0xc0 | ((target >> 8) & 0x3f) as u8);
        m.push(target as u8);
        target = last;
    }
    m.extend_from_slice(&[0x77, 0x88, 0x99]);
    if target > 0x3fff {
        return Ok(());
    }
    // the reference decoder follows any number of hops; the library may refuse chains longer than 32 hops, but if it
    // answers it must give these labels and resume right after the first pointer
    let mut c = Case::default();
    compare(&m, last, &mut c)?;
    if hops > 0 {
        compare(&m, last.saturating_sub(2).max(name_at), &mut c)?;
    }
    case.nontrivial = hops >= 1;
    case.classes = c.classes;
    case.class(format!("hops>{}", (hops / 128) * 128));
    Ok(())
}

fn enum_reserved(_t: Tier, shard: usize, n: usize, f: &mut dyn FnMut((u8, u16)) -> bool) {
    let mut i = 0;
    for b in 0x40u16..=0xbf {
        for room in [0u16, 1, 62, 63, 64, 127, 128, 191, 192, 260] {
            i += 1;
            if mine(i, shard, n) && !f((b as u8, room)) {
                return;
            }
        }
    }
}

fn check_reserved(input: &(u8, u16), case: &mut Case) -> Result<(), Fail> {
    let (b, room) = *input;
    // [first label "ab"] [reserved-type octet] [room bytes] [03 com 00]
    let mut m = vec![2, b'a', b'b', b];
    m.extend(std::iter::repeat(b'x').take(room as usize));
    m.extend_from_slice(&[3, b'c', b'o', b'm', 0]);
    case.nontrivial = true;
    compare(&m, 0, case)?;
    compare(&m, 3, case)
}

// ---- names inside messages: question, owner and RDATA positions, parsing must resume after the in-place bytes

fn check_in_packet(input: &super::c10::ParseIn, case: &mut Case) -> Result<(), Fail> {
    // the record is reference-encoded with foreign compression (pointers also inside RRSIG, NSEC, SRV ... names),
    // followed by another record: a name that is decoded wrongly, or after which parsing resumes at the wrong
    // offset, changes the observed fields
    // Only the names are this property's business: what the other RDATA fields hold is C10's.
    let (rec, choices, trail) = input;
    let code = rec.rdata.code();
    case.nontrivial = true;
    case.class(format!("type:{}", code));
    let mut p = APacket { id: 1, flags: 0x8400, ..Default::default() };
    p.questions.push(AQuestion { name: rec.name.clone(), qtype: 255, qclass: 1, unicast: false });
    p.answers.push(rec.clone());
    let trailing = ARecord { name: AName::from_strs(&["t", "example"]), class: 1, cache_flush: false, ttl: 1, rdata: ARData::Typed { code: 1, fields: vec![Val::U32(0x7f000001)] } };
    if *trail {
        p.answers.push(trailing.clone());
    }
    let plain = encode_message(&p, &EncOpts::plain());
    let wire = if choices.is_empty() { plain.clone() } else { encode_message(&p, &EncOpts::foreign(choices.clone())) };
    if !choices.is_empty() {
        case.class("foreign-compression");
    }
    let pk = match parse(&wire)? {
        Ok(pk) => pk,
        Err(e) => {
            // refused: a claim only if the same message without pointers is accepted (then the pointers, all backward
            // and onto label starts of earlier names, are what was refused)
            if !choices.is_empty() && parse(&plain)?.is_ok() {
                return Err(Fail::new(format!("c06:in-packet:rejected:{}", code), format!("a type {} record whose names use backward compression pointers is rejected ({:?}) while the same message without pointers is accepted; wire {}", code, e, hex(&wire))));
            }
            case.class("rejected-also-without-pointers:no-claim");
            return Ok(());
        }
    };
    ensure!(pk.answers.len() == p.answers.len() && pk.questions.len() == 1, "c06:in-packet:count", "type {}: {} questions / {} answers", code, pk.questions.len(), pk.answers.len());
    let names_of = |r: &ARecord| -> Vec<AName> {
        let mut v = vec![r.name.clone()];
        if let ARData::Typed { code, fields } = &r.rdata {
            v.extend(embedded_names(*code, fields).into_iter().map(|(n, _)| n.clone()));
        }
        v
    };
    let o = lib("observe", || crate::bridge::observe_record(&pk.answers[0]))?;
    ensure!(oname(&pk.questions[0].qname) == rec.name, "c06:in-packet:names", "type {}: question name decoded as {:?}", code, oname(&pk.questions[0].qname));
    ensure!(names_of(&o) == names_of(rec), "c06:in-packet:names", "type {}: owner and embedded names decoded as {:?}, the message holds {:?}", code, names_of(&o), names_of(rec));
    if *trail {
        // parsing resumed at the right place: the next record is intact
        let t = lib("observe", || crate::bridge::observe_record(&pk.answers[1]))?;
        ensure!(t == trailing, "c06:in-packet:next-record", "the record after a type {} record parsed as {:?}", code, t);
    }
    Ok(())
}

/// a record whose RDATA holds names followed by fixed fields (SOA, MINFO, RP, MX, SRV, NAPTR, KX, ...), encoded with
/// foreign compression and an RDLENGTH that is 1..3 octets larger than its content, followed by another record: if
/// the library accepts the surplus, the fields behind the names must still be read right after the names
fn check_in_surplus(input: &(ARecord, Vec<u8>, Bytes), case: &mut Case) -> Result<(), Fail> {
    let (rec, choices, surplus) = input;
    let code = rec.rdata.code();
    let mut p = APacket { id: 1, flags: 0x8400, ..Default::default() };
    p.questions.push(AQuestion { name: rec.name.clone(), qtype: 255, qclass: 1, unicast: false });
    p.answers.push(rec.clone());
    p.answers.push(ARecord { name: AName::from_strs(&["t", "example"]), class: 1, cache_flush: false, ttl: 1, rdata: ARData::Typed { code: 1, fields: vec![Val::U32(0x7f000001)] } });
    let mut opts = if choices.is_empty() { EncOpts::plain() } else { EncOpts::foreign(choices.clone()) };
    opts.tweaks.insert((0, 0), Tweak { surplus: surplus.clone(), shrink: 0 });
    let wire = encode_message(&p, &opts);
    case.class(format!("type:{}", code));
    let Ok(pk) = parse(&wire)? else {
        case.class("surplus-rejected:no-claim");
        return Ok(());
    };
    case.class("surplus-accepted");
    case.nontrivial = true;
    ensure!(pk.answers.len() == 2, "c06:in-packet-surplus:count", "answers: {}", pk.answers.len());
    let o = lib("observe", || crate::bridge::observe_record(&pk.answers[0]))?;
    // the owner and the RDATA (the names and the fields read after them); the TTL, class and cache-flush bit of the
    // entry are not this statement's subject
    ensure!(o.name == rec.name && o.rdata == rec.rdata, "c06:in-packet-surplus:fields", "type {} with {} surplus octets parsed as {:?}, expected {:?}", code, surplus.len(), o.rdata, rec.rdata);
    // (where the *next entry* is read from when RDLENGTH exceeds the content is C05's statement; the resume
    // position after a name followed by the next record is checked by the exact-length section above)
    Ok(())
}

fn surplus_strategy(_t: Tier) -> BoxedStrategy<(ARecord, Vec<u8>, Bytes)> {
    // types with at least one embedded name
    // ... and a content of definite length (a trailing opaque field would simply absorb the surplus)
    let with_names: Vec<u16> = crate::gen::record_codes()
        .into_iter()
        .filter(|c| {
            type_info(*c)
                .map(|i| {
                    i.fields.iter().any(|f| matches!(f.kind, Kind::Name(_)))
                        && !i.fields.iter().any(|f| matches!(f.kind, Kind::Gateway))
                        && matches!(i.fields.last().map(|f| f.kind), Some(Kind::U8 | Kind::U16 | Kind::U24 | Kind::U32 | Kind::U48 | Kind::Fixed(_) | Kind::Name(_) | Kind::CharStr))
                })
                .unwrap_or(false)
        })
        .collect();
    (
        proptest::sample::select(with_names).prop_flat_map(|c| crate::gen::arecord_with(crate::gen::typed(c))),
        vec(any::<u8>(), 0..6),
        vec(any::<u8>(), 1..=3).prop_map(Bytes),
    )
        .boxed()
}

/// a record whose last field is a name, with its RDATA ending right before that name (RDLENGTH and content both cut),
/// followed by another record whose owner starts with a label: the bytes at the position of the missing name are
/// the next record, so a reader that accepts the message and still reports the record under its type must not have
/// found a name there that the bytes at that position do not spell
fn check_in_cut(input: &(ARecord, u8), case: &mut Case) -> Result<(), Fail> {
    let (rec, keep) = input;
    let code = rec.rdata.code();
    let ARData::Typed { fields, .. } = &rec.rdata else { return Ok(()) };
    let Some(Val::Name(last)) = fields.last() else { return Ok(()) };
    let name_wire: usize = last.0.iter().map(|l| l.0.len() + 1).sum::<usize>() + 1;
    // keep 0 octets of the name, or (for names of more than one label) its first label only
    let first_label = last.0.first().map(|l| l.0.len() + 1).unwrap_or(0);
    let kept = if *keep % 2 == 1 && last.0.len() >= 2 { first_label } else { 0 };
    let mut p = APacket { id: 1, flags: 0x8400, ..Default::default() };
    p.answers.push(rec.clone());
    let wire = encode_message(&p, &EncOpts::plain());
    let Ok(w) = walk(&wire) else { return Ok(()) };
    let Some(r0) = w.records.first() else { return Ok(()) };
    if r0.end != wire.len() || r0.rdlen < name_wire {
        return Ok(());
    }
    let cut = name_wire - kept;
    let mut m = wire[..wire.len() - cut].to_vec();
    let new_len = (r0.rdlen - cut) as u16;
    m[r0.rdata_off - 2..r0.rdata_off].copy_from_slice(&new_len.to_be_bytes());
    m[6..8].copy_from_slice(&2u16.to_be_bytes());
    let name_pos = r0.rdata_off + r0.rdlen - name_wire;
    // the next record: owner t.example, type A
    m.extend_from_slice(&[1, b't', 7, b'e', b'x', b'a', b'm', b'p', b'l', b'e', 0, 0, 1, 0, 1, 0, 0, 0, 1, 0, 4, 127, 0, 0, 1]);
    case.class(format!("type:{}", code));
    case.nontrivial = true;
    let Ok(pk) = parse(&m)? else {
        case.class("cut-rejected");
        return Ok(());
    };
    case.class("cut-accepted");
    let Some(first) = pk.answers.first() else { return Ok(()) };
    let o = lib("observe", || crate::bridge::observe_record(first))?;
    let ARData::Typed { code: oc, fields: of } = &o.rdata else {
        // kept as empty / opaque data of that type: no name was reported
        case.class("cut-accepted-without-a-name:no-claim");
        return Ok(());
    };
    if *oc != code {
        return Ok(());
    }
    case.class("cut-accepted-with-a-name");
    if let Some(Val::Name(got)) = of.last() {
        // what an RFC 1035 decoder reads at the position where the name would start
        let want = decode_name(&m, name_pos).ok().map(|d| d.aname());
        ensure!(
            want.as_ref() == Some(got),
            "c06:in-packet-cut:invented-name",
            "a type {} record whose RDATA ends {} octets into its last name was accepted and reports the name {:?}; the bytes at that position (offset {}) decode to {:?}; message {}",
            code,
            kept,
            got.render(),
            name_pos,
            want.map(|n| n.render()),
            hex(&m)
        );
    }
    Ok(())
}

fn cut_strategy(_t: Tier) -> BoxedStrategy<(ARecord, u8)> {
    let name_last: Vec<u16> = crate::gen::record_codes()
        .into_iter()
        .filter(|c| type_info(*c).map(|i| matches!(i.fields.last().map(|f| f.kind), Some(Kind::Name(_)))).unwrap_or(false))
        .collect();
    (proptest::sample::select(name_last).prop_flat_map(|c| crate::gen::arecord_with(crate::gen::typed_n(c, crate::gen::friendly_name()))), any::<u8>()).boxed()
}

/// a record whose embedded name (one of them, if the type has several) takes 256..=330 octets on the wire, written in
/// full or reached through a pointer to a question name of that size: every reader of names must refuse it
fn check_in_overlong(input: &(ARecord, u16, u8, bool), case: &mut Case) -> Result<(), Fail> {
    let (rec, wire_len, which, via_pointer) = input;
    let code = rec.rdata.code();
    // labels of 40 octets until the wanted wire length is reached
    let mut labels: Vec<Bytes> = Vec::new();
    let mut wire = 1usize;
    while wire + 41 <= *wire_len as usize {
        labels.push(Bytes(vec![b'a' + (labels.len() % 26) as u8; 40]));
        wire += 41;
    }
    let rem = *wire_len as usize - wire;
    if rem >= 2 {
        labels.push(Bytes(vec![b'z'; rem - 1]));
    }
    let long = AName(labels);
    let mut rec = rec.clone();
    let mut replaced = false;
    if let ARData::Typed { fields, .. } = &mut rec.rdata {
        let slots: Vec<usize> = fields.iter().enumerate().filter(|(_, f)| matches!(f, Val::Name(_) | Val::Gateway(Gw::Name(_)))).map(|(i, _)| i).collect();
        if !slots.is_empty() {
            let i = slots[*which as usize % slots.len()];
            fields[i] = match &fields[i] {
                Val::Gateway(_) => Val::Gateway(Gw::Name(long.clone())),
                _ => Val::Name(long.clone()),
            };
            replaced = true;
        }
    }
    if !replaced {
        return Ok(());
    }
    let mut p = APacket { id: 1, flags: 0x8400, ..Default::default() };
    if *via_pointer {
        // the question name is the over-long name itself (rejected there already by a correct reader; the record
        // position is what this case is about, so the question uses a shorter, valid prefix plus a first label)
        let mut q = long.clone();
        q.0.remove(0);
        p.questions.push(AQuestion { name: q, qtype: 255, qclass: 1, unicast: false });
    }
    p.answers.push(rec.clone());
    p.answers.push(ARecord { name: AName::from_strs(&["t", "example"]), class: 1, cache_flush: false, ttl: 1, rdata: ARData::Typed { code: 1, fields: vec![Val::U32(0x7f000001)] } });
    let opts = if *via_pointer { EncOpts::foreign(vec![1, 1, 1, 1, 1, 1, 1, 1]) } else { EncOpts::plain() };
    let wire_msg = encode_message(&p, &opts);
    case.class(format!("type:{}", code));
    case.nontrivial = true;
    if let Ok(pk) = parse(&wire_msg)? {
        let o = lib("observe", || crate::bridge::observe_record(&pk.answers[0]))?;
        return Err(Fail::new(
            "c06:in-packet-overlong:accepted",
            format!("a type {} record holding a name of {} wire octets ({}) was accepted as {:?}", code, wire_len, if *via_pointer { "partly through a pointer" } else { "written in full" }, o.rdata),
        ));
    }
    Ok(())
}

fn overlong_strategy(_t: Tier) -> BoxedStrategy<(ARecord, u16, u8, bool)> {
    let with_names: Vec<u16> = crate::gen::record_codes().into_iter().filter(|c| type_info(*c).map(|i| i.fields.iter().any(|f| matches!(f.kind, Kind::Name(_) | Kind::Gateway))).unwrap_or(false)).collect();
    (
        proptest::sample::select(with_names).prop_flat_map(|c| crate::gen::arecord_with(crate::gen::typed_n(c, crate::gen::friendly_name()))),
        prop_oneof![3 => 256u16..=258, 1 => 259u16..=330],
        any::<u8>(),
        any::<bool>(),
    )
        .boxed()
}

/// small messages whose question name, owner name or RDATA name ends in a pointer outside the message, a pointer to
/// itself, a two-step cycle or a reserved label type, under header words with and without TC / AA / RD: refused
fn enum_bad_names(_t: Tier, shard: usize, n: usize, f: &mut dyn FnMut((u8, u8, u16, u8)) -> bool) {
    let mut i = 0;
    for place in 0..3u8 {
        for kind in 0..7u8 {
            for flags in [0x0000u16, 0x0200, 0x8400, 0x8600, 0x8180, 0x0300] {
                for lead in 0..3u8 {
                    i += 1;
                    if mine(i, shard, n) && !f((place, kind, flags, lead)) {
                        return;
                    }
                }
            }
        }
    }
}

fn check_bad_name(input: &(u8, u8, u16, u8), case: &mut Case) -> Result<(), Fail> {
    let (place, kind, flags, lead) = *input;
    let mut m = vec![0x06, 0x06];
    m.extend_from_slice(&flags.to_be_bytes());
    m.extend_from_slice(&[0, 0, 0, 0, 0, 0, 0, 0]);
    // a valid first question so that offsets below exist
    m.extend_from_slice(&[1, b'q', 0, 0, 1, 0, 1]);
    let mut qd = 1u16;
    let mut an = 0u16;
    let bad = |at: usize, total_hint: usize| -> Vec<u8> {
        let mut v = Vec::new();
        for _ in 0..lead {
            v.extend_from_slice(&[1, b'x']);
        }
        let here = at + v.len();
        match kind {
            0 => v.extend_from_slice(&[0xc0 | ((total_hint + 40) >> 8) as u8, (total_hint + 40) as u8]), // beyond the end
            1 => v.extend_from_slice(&[0xff, 0xff]),                                                      // far beyond
            2 => v.extend_from_slice(&[0xc0 | (here >> 8) as u8, here as u8]),                            // itself
            3 => v.extend_from_slice(&[0xc0 | (at >> 8) as u8, at as u8]),                                // its own first label (cycle when lead > 0, self otherwise)
            4 => v.extend_from_slice(&[0x40, 0x00]),                                                      // reserved 01
            5 => v.extend_from_slice(&[0x80, 0x0c]),                                                      // reserved 10
            _ => v.extend_from_slice(&[64, b'y']),                                                        // label length 64
        }
        v
    };
    match place {
        0 => {
            let at = m.len();
            m.extend(bad(at, at + 6));
            m.extend_from_slice(&[0, 1, 0, 1]);
            qd = 2;
        }
        1 => {
            let at = m.len();
            m.extend(bad(at, at + 16));
            m.extend_from_slice(&[0, 1, 0, 1, 0, 0, 0, 1, 0, 4, 1, 2, 3, 4]);
            an = 1;
        }
        _ => {
            // CNAME whose target is the bad name
            m.extend_from_slice(&[0xc0, 0x0c, 0, 5, 0, 1, 0, 0, 0, 1]);
            let lenpos = m.len();
            m.extend_from_slice(&[0, 0]);
            let at = m.len();
            let b = bad(at, at + 4);
            m.extend(&b);
            m[lenpos..lenpos + 2].copy_from_slice(&(b.len() as u16).to_be_bytes());
            an = 1;
        }
    }
    m[4..6].copy_from_slice(&qd.to_be_bytes());
    m[6..8].copy_from_slice(&an.to_be_bytes());
    case.nontrivial = true;
    case.class(format!("kind{}", kind));
    if let Ok(p) = parse(&m)? {
        return Err(Fail::new(
            "c06:in-packet-bad-name:accepted",
            format!("a message (flags {:#06x}) whose {} name ends in {} was accepted with {} questions / {} answers: {}", flags, ["question", "owner", "CNAME target"][place as usize], ["a pointer beyond the message", "a pointer far beyond the message", "a pointer to itself", "a pointer to its own start", "reserved label type 01", "reserved label type 10", "a label length of 64"][kind as usize], p.questions.len(), p.answers.len(), hex(&m)),
        ));
    }
    Ok(())
}

fn check_in_large(input: &(crate::gen::Sharing, Vec<u8>), case: &mut Case) -> Result<(), Fail> {
    let p = input.0.assemble();
    let opts = if input.1.is_empty() { EncOpts::compressed() } else { EncOpts::foreign(input.1.clone()) };
    let m = encode_message(&p, &opts);
    if m.len() > 8192 {
        case.class("over-8k");
    }
    if m.len() > 16384 {
        case.class("over-16k");
    }
    let pk = match parse(&m)? {
        Ok(pk) => pk,
        Err(e) => {
            // a claim only if the same message without pointers is accepted
            let plain = encode_message(&p, &EncOpts::plain());
            if plain.len() <= 65535 && parse(&plain)?.is_ok() {
                return Err(Fail::new("c06:in-packet-large:rejected", format!("a well-formed {}-byte message with pointers to offsets up to 16383 was rejected ({:?}) while its pointer-free form is accepted", m.len(), e)));
            }
            case.class("rejected-also-without-pointers:no-claim");
            return Ok(());
        }
    };
    let o = lib("observe", || crate::bridge::observe(&pk))?;
    case.nontrivial = m.len() > 8192;
    // names only (what the other fields hold is C02's / C10's business)
    let names = |x: &APacket| -> Vec<AName> {
        let mut v: Vec<AName> = x.questions.iter().map(|q| q.name.clone()).collect();
        for r in x.records() {
            v.push(r.name.clone());
            if let ARData::Typed { code, fields } = &r.rdata {
                v.extend(embedded_names(*code, fields).into_iter().map(|(n, _)| n.clone()));
            }
        }
        v
    };
    let (got, want) = (names(&o), names(&p));
    if got != want {
        let at = got.iter().zip(want.iter()).position(|(a, b)| a != b);
        return Err(Fail::new("c06:in-packet-large:names", format!("{}-byte message: {} names decoded, {} in the message; first difference at name #{:?}: {:?} vs {:?}", m.len(), got.len(), want.len(), at, at.map(|i| &got[i]), at.map(|i| &want[i]))));
    }
    Ok(())
}

fn large_strategy(t: Tier) -> BoxedStrategy<(crate::gen::Sharing, Vec<u8>)> {
    (crate::gen::sharing(t), vec(any::<u8>(), 0..4)).boxed()
}

pub fn def() -> CheckDef {
    CheckDef {
        id: "C06",
        rule: "library name decoder (hook Name::verif_parse) vs an independent RFC 1035 4.1.4 decoder with a visited set: (1) bounded-exhaustive: every buffer of length <= 6 (7 thorough) over {00,01,02,03,04,05,3f,40,80,c0,ff,'a'} decoded at every start offset; (2) names of 250..=258 wire bytes from 5 label sizes, direct and through a pointer; (2b) chains of 0..4000 strictly backward pointer hops onto names of 0..127 labels, and every reserved-type octet 0x40..=0xBF with 0..260 bytes behind it; (3) random 'soups' of labels (1..4, 30..40, 61..63 bytes), terminators, pointers to earlier pieces, absolute pointers (into the prefix, forward, out of range) and reserved-type octets, decoded at every piece start; (4) through Packet::parse: every record type reference-encoded with foreign compression (pointers inside all RDATA names) followed by another record; the same for the types with embedded names when RDLENGTH exceeds the content by 1..3 octets (if the library accepts the surplus, the fields behind the names and the next record must be unaffected); a name of 256..330 wire octets placed in each RDATA name position of each such type (in full, or continued through a pointer into the question) must be refused; small messages whose question / owner / CNAME-target name ends in a pointer beyond the message, to itself, in a cycle, in a reserved label type or a 64-octet label, under six header words (with and without TC), must be refused; and suffix-sharing messages up to 64 KiB whose pointers reach offsets up to 16383, observed field by field. Oracle: library Ok => same labels and same resume offset, labels 1..=63, wire <= 255; reference error (cycle, out of range, reserved type, too long, truncated) => library Err; reference Ok with only backward pointers and <= 32 hops => library Ok. Non-trivial = the reference decode met a pointer, >= 2 labels or an error; evaluations count (buffer, offset) pairs",
        assumptions: vec!["forward pointers and chains longer than 32 hops may be refused (no claim)"],
        sections: vec![
            Box::new(ReplayOnly { name: "fuzz-bytes", check: check_raw }),
            Box::new(EnumSection { name: "exhaustive", rule: "all short buffers x all offsets", enumerate: enum_buffers, check: check_buffer, exhaustive: true }),
            Box::new(EnumSection { name: "boundary-255", rule: "names around 255 bytes", enumerate: enum_long, check: check_soup, exhaustive: true }),
            Box::new(EnumSection { name: "chains", rule: "0..4000 strictly backward pointer hops onto names of 0..127 labels", enumerate: enum_chains, check: check_chain, exhaustive: true }),
            Box::new(EnumSection { name: "reserved-types", rule: "every octet 0x40..=0xBF as a label type with 0..260 bytes behind it", enumerate: enum_reserved, check: check_reserved, exhaustive: true }),
            Box::new(PropSection { name: "in-packet", rule: "names in question / owner / RDATA positions of every type", strategy: super::c10::parse_strategy, cases: (100_000, 1_500_000), check: check_in_packet }),
            Box::new(PropSection { name: "in-packet-cut", rule: "RDATA ending right before (or one label into) its last name, another record behind it", strategy: cut_strategy, cases: (20_000, 200_000), check: check_in_cut }),
            Box::new(PropSection { name: "in-packet-surplus", rule: "names followed by fixed fields inside RDATA with surplus octets", strategy: surplus_strategy, cases: (60_000, 600_000), check: check_in_surplus }),
            Box::new(PropSection { name: "in-packet-overlong", rule: "names of 256..330 octets in every RDATA name position", strategy: overlong_strategy, cases: (40_000, 400_000), check: check_in_overlong }),
            Box::new(EnumSection { name: "in-packet-bad-names", rule: "names ending in bad pointers / reserved types in every position under several header words", enumerate: enum_bad_names, check: check_bad_name, exhaustive: true }),
            Box::new(PropSection { name: "in-packet-large", rule: "pointers to offsets up to 16383 in large messages", strategy: large_strategy, cases: (30_000, 300_000), check: check_in_large }),
            Box::new(PropSection { name: "soups", rule: "random name soups", strategy: soup_strategy, cases: (300_000, 4_000_000), check: check_soup }),
        ],
    }
}

fn check_raw(input: &(Bytes, u32), case: &mut Case) -> Result<(), Fail> {
    compare(&input.0, input.1 as usize, case)
}

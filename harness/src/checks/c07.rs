//! C07 — emitted compression pointers are valid and used where allowed
use super::util::*;
use crate::bridge::*;
use crate::driver::CheckDef;
use crate::ensure;
use crate::gen::{self, Sharing};
use crate::refmodel::*;
use crate::runner::*;
use proptest::prelude::*;
use std::collections::{HashMap, HashSet};
use std::io::Cursor;

/// every name occurrence of a message with its position class, in wire order
pub struct Occ {
    pub offset: usize,
    pub cmp: Cmp,
    pub dec: NameDec,
    pub what: String,
}

pub fn occurrences(msg: &[u8]) -> Result<Vec<Occ>, Fail> {
    let w = walk(msg).map_err(|e| Fail::new("c07:unwalkable", format!("compressed output does not walk: {:?}", e)))?;
    ensure!(w.end == msg.len(), "c07:unwalkable", "walker ends at {} of {}", w.end, msg.len());
    let mut occs = Vec::new();
    for (i, q) in w.questions.iter().enumerate() {
        occs.push(Occ { offset: q.off, cmp: Cmp::Must, dec: q.name.clone(), what: format!("question[{}]", i) });
    }
    for (i, r) in w.records.iter().enumerate() {
        occs.push(Occ { offset: r.off, cmp: Cmp::Must, dec: r.name.clone(), what: format!("record[{}].owner", i) });
        if r.rdlen > 0 && is_typed(r.rtype) {
            let (_, stop, names) = schema_decode(r.rtype, msg, r.rdata_off, r.end)
                .map_err(|e| Fail::new("c07:rdata-undecodable", format!("record[{}] type {}: {:?}", i, r.rtype, e)))?;
            ensure!(stop == r.end, "c07:rdata-undecodable", "record[{}] type {} content stops at {} of {}", i, r.rtype, stop, r.end);
            for n in names {
                occs.push(Occ { offset: n.offset, cmp: n.cmp, dec: n.dec, what: format!("record[{}].rdata({})", i, type_info(r.rtype).unwrap().mnemonic) });
            }
        }
    }
    Ok(occs)
}

/// the pointer rules of the statement, checked on one compressed message (offsets relative to its first byte)
pub fn check_pointers(msg: &[u8], case: &mut Case) -> Result<usize, Fail> {
    let occs = occurrences(msg)?;
    let mut label_starts: HashSet<usize> = HashSet::new();
    let mut complete_must: HashMap<Vec<Vec<u8>>, usize> = HashMap::new();
    let mut npointers = 0;
    for o in &occs {
        let d = &o.dec;
        // pointers met while expanding this occurrence
        for (k, (pos, target)) in d.pointers.iter().enumerate() {
            ensure!(target < pos, "c07:pointer-not-backwards", "{}: pointer at {} targets {}", o.what, pos, target);
            ensure!(*target <= 16383, "c07:pointer-range", "{}: pointer target {}", o.what, target);
            if k == 0 {
                ensure!(label_starts.contains(target), "c07:pointer-target", "{} at {}: pointer to {} which is not the start of a label of an earlier-written name", o.what, o.offset, target);
            }
        }
        let inplace_ptr = d.pointers.first().map(|(pos, _)| *pos >= o.offset && *pos < d.next).unwrap_or(false);
        if inplace_ptr {
            npointers += 1;
        }
        if o.cmp == Cmp::Never {
            if complete_must.contains_key(&d.labels) {
                case.class("never-position-with-available-target");
            }
            ensure!(!inplace_ptr, "c07:compressed-forbidden", "{} at {}: a name whose type forbids compression contains a pointer", o.what, o.offset);
        }
        if o.cmp == Cmp::Must && !d.labels.is_empty() {
            if let Some(first) = complete_must.get(&d.labels) {
                let single = d.next - o.offset == 2 && msg[o.offset] & 0xC0 == 0xC0;
                ensure!(single, "c07:not-compressed", "{} at {}: the name was already written at offset {} but is repeated ({} bytes in place)", o.what, o.offset, first, d.next - o.offset);
                case.class("repeat-compressed");
            }
        }
        // register what this occurrence wrote in place
        for lo in &d.label_offsets {
            if *lo >= o.offset && *lo < d.next {
                label_starts.insert(*lo);
            }
        }
        if o.cmp == Cmp::Must && !d.labels.is_empty() && o.offset <= 16383 {
            // complete in-place or partly pointed: the complete name is now expressible by a pointer to o.offset
            // only if its first label was written in place (else it is itself just a pointer)
            if d.label_offsets.first().map(|lo| *lo == o.offset).unwrap_or(false) {
                complete_must.entry(d.labels.clone()).or_insert(o.offset);
            }
        }
    }
    Ok(npointers)
}

/// every name of a packet in wire order: question names, owner names, names embedded in RDATA
fn names_of(x: &APacket) -> Vec<AName> {
    let mut v: Vec<AName> = x.questions.iter().map(|q| q.name.clone()).collect();
    for r in x.records() {
        v.push(r.name.clone());
        if let ARData::Typed { code, fields } = &r.rdata {
            v.extend(embedded_names(*code, fields).into_iter().map(|(n, _)| n.clone()));
        }
    }
    v
}

/// (packet, starting offset of the writer)
pub type In = (Sharing, u16);

fn check(input: &In, case: &mut Case) -> Result<(), Fail> {
    let (s, origin) = input;
    let p = s.assemble();
    let pk = lib("build", || build(&p))?.map_err(|e| Fail::new("harness:build", e))?;
    // the pointer rules are judged on packets whose plain form is what the model says (otherwise the layout itself is
    // wrong, which is C02's / C10's business, and the schema-aware walker has nothing to stand on)
    match ser_plain(&pk) {
        Ok(u) => {
            super::c03::size_classes(&u, case);
            if !matches!(decode_message(&u), Ok((back, _)) if back == p) {
                case.class("plain-form-differs-from-model:no-claim");
                return Ok(());
            }
        }
        Err(_) => {
            case.class("plain-form-refused:no-claim");
            return Ok(());
        }
    }
    let c = ser_compressed(&pk).map_err(|f| Fail::new("c07:compressed-failed", f.msg))?;
    let n = check_pointers(&c, case)?;
    case.nontrivial = n >= 1;
    // expands to the intended names
    let (back, _) = decode_message(&c).map_err(|e| Fail::new("c07:undecodable", format!("{:?}", e)))?;
    ensure!(names_of(&back) == names_of(&p), "c07:expands-wrong", "compressed output decodes (reference decoder) to different names: {}", diff(&p, &back));
    // the same packet serialised a second time, and a clone of it after one of its own records was appended: the
    // pointer rules hold for every compressed output, not only for the first one of a fresh value
    if p.id % 4 == 3 && c.len() < 16000 {
        case.class("serialised-again-and-grown");
        let c2 = ser_compressed(&pk).map_err(|f| Fail::new("c07:compressed-failed", format!("second serialisation: {}", f.msg)))?;
        check_pointers(&c2, &mut Case::default()).map_err(|f| Fail::new(f.sig, format!("second compressed output of the same packet: {}", f.msg)))?;
        let (back2, _) = decode_message(&c2).map_err(|e| Fail::new("c07:undecodable", format!("second compressed output: {:?}", e)))?;
        ensure!(names_of(&back2) == names_of(&p), "c07:expands-wrong", "the second compressed output decodes to different names: {}", diff(&p, &back2));
        if let Some(r) = pk.answers.last().or(pk.additional_records.last()).cloned() {
            let mut grown = pk.clone();
            grown.additional_records.push(r);
            if let (Ok(u3), Ok(c3)) = (ser_plain(&grown), ser_compressed(&grown)) {
                // judged only where the plain form of the grown packet decodes (as above)
                if let Ok((want3, _)) = decode_message(&u3) {
                    check_pointers(&c3, &mut Case::default()).map_err(|f| Fail::new(f.sig, format!("compressed output of a clone that has grown by one of its own records: {}", f.msg)))?;
                    let (back3, _) = decode_message(&c3).map_err(|e| Fail::new("c07:undecodable", format!("grown clone: {:?}", e)))?;
                    ensure!(names_of(&back3) == names_of(&want3), "c07:expands-wrong", "the compressed output of a grown clone decodes to different names: {}", diff(&want3, &back3));
                }
            }
        }
    }
    // a packet put together in two stages: header and first question only, serialised with compression, then the
    // other questions and all records pushed into the same value (what a responder does with `into_reply`)
    if p.id % 4 == 2 && c.len() < 16000 {
        case.class("built-in-two-stages");
        let mut first = p.clone();
        first.questions.truncate(1);
        first.answers.clear();
        first.authorities.clear();
        first.additionals.clear();
        let mut staged = lib("build", || build(&first))?.map_err(|e| Fail::new("harness:build", e))?;
        let _ = ser_compressed(&staged);
        let rest = pk.clone();
        staged.questions.extend(rest.questions.into_iter().skip(1));
        staged.answers.extend(rest.answers);
        staged.name_servers.extend(rest.name_servers);
        staged.additional_records.extend(rest.additional_records);
        let cs = ser_compressed(&staged).map_err(|f| Fail::new("c07:compressed-failed", format!("packet built in two stages: {}", f.msg)))?;
        check_pointers(&cs, &mut Case::default()).map_err(|f| Fail::new(f.sig, format!("packet serialised once with its first question only and completed afterwards: {}", f.msg)))?;
        let (backs, _) = decode_message(&cs).map_err(|e| Fail::new("c07:undecodable", format!("packet built in two stages: {:?}", e)))?;
        ensure!(names_of(&backs) == names_of(&p), "c07:expands-wrong", "the compressed output of a packet built in two stages decodes to different names: {}", diff(&p, &backs));
    }
    // a writer that takes only a few bytes per write call: pointer offsets must not depend on it
    {
        let chunk = 1 + (*origin as usize % 5);
        let mut w = super::c04::ChunkedWriter { inner: Cursor::new(Vec::new()), chunk };
        let r = lib("write_compressed_to", || pk.write_compressed_to(&mut w))?;
        r.map_err(|e| Fail::new("c07:write-failed", format!("write_compressed_to on a writer accepting {} bytes per call: {:?}", chunk, e)))?;
        let v = w.inner.into_inner();
        if v != c {
            // other bytes than the vector entry point wrote are acceptable as long as the pointer rules hold for them
            case.class("short-write-output-differs");
            check_pointers(&v, &mut Case::default()).map_err(|f| Fail::new(format!("{}@short-writes", f.sig), format!("writer accepting {} bytes per call: {}", chunk, f.msg)))?;
            let (back, _) = decode_message(&v).map_err(|e| Fail::new("c07:undecodable@short-writes", format!("writer accepting {} bytes per call: {:?}", chunk, e)))?;
            ensure!(names_of(&back) == names_of(&p), "c07:expands-wrong@short-writes", "writer accepting {} bytes per call: {}", chunk, diff(&p, &back));
        }
    }
    // a writer that does not start at offset 0: pointers still count from the first byte of the message
    let k = (*origin % 600) as usize;
    if k > 0 {
        case.class("non-zero-origin");
        let mut cur = Cursor::new(vec![0xEEu8; k]);
        cur.set_position(k as u64);
        let r = lib("write_compressed_to", || pk.write_compressed_to(&mut cur))?;
        r.map_err(|e| Fail::new("c07:write-failed", format!("write_compressed_to at offset {}: {:?}", k, e)))?;
        let v = cur.into_inner();
        ensure!(v.len() >= k, "c07:origin", "output shorter than the origin");
        let msg = &v[k..];
        check_pointers(msg, &mut Case::default()).map_err(|f| Fail::new(format!("{}@origin", f.sig), format!("writer starting at offset {}: {}", k, f.msg)))?;
        let (back, _) = decode_message(msg).map_err(|e| Fail::new("c07:undecodable@origin", format!("writer starting at offset {}: {:?}", k, e)))?;
        ensure!(names_of(&back) == names_of(&p), "c07:expands-wrong@origin", "writer starting at offset {}: {}", k, diff(&p, &back));
    }
    Ok(())
}

/// packets with K distinct many-label owner names (thousands of distinct suffixes inside the first 16 KiB)
/// followed by a new name that is used twice
fn enum_many_names(_t: Tier, shard: usize, n: usize, f: &mut dyn FnMut((u16, u8)) -> bool) {
    let mut i = 0;
    for k in crate::gen::sizes_u16(&[0u16, 1, 8, 16, 31, 32, 33, 34, 40, 64, 100], 130) {
        for labels in [127u8, 60, 10] {
            i += 1;
            if mine(i, shard, n) && !f((k, labels)) {
                return;
            }
        }
    }
}

fn check_many_names(input: &(u16, u8), case: &mut Case) -> Result<(), Fail> {
    let (k, labels) = *input;
    let mut p = APacket { id: 7, flags: 0x8400, ..Default::default() };
    for j in 0..k {
        // `labels` one-byte labels; the last label makes every name (and every one of its suffixes) distinct
        let mut l: Vec<Bytes> = (0..labels.saturating_sub(2)).map(|x| Bytes(vec![b'a' + (x % 26)])).collect();
        l.push(Bytes(vec![b'0' + (j / 36 % 36) as u8]));
        l.push(Bytes(vec![b'A' + (j % 36) as u8]));
        p.answers.push(ARecord { name: AName(l), class: 1, cache_flush: false, ttl: 1, rdata: ARData::Typed { code: 1, fields: vec![Val::U32(j as u32)] } });
    }
    let again = AName::from_strs(&["printer", "office", "example"]);
    for x in 0..2u32 {
        p.additionals.push(ARecord { name: again.clone(), class: 1, cache_flush: false, ttl: 1, rdata: ARData::Typed { code: 1, fields: vec![Val::U32(x)] } });
    }
    let p = crate::gen::fit(p);
    let pk = lib("build", || build(&p))?.map_err(|e| Fail::new("harness:build", e))?;
    let c = ser_compressed(&pk).map_err(|f| Fail::new("c07:compressed-failed", f.msg))?;
    let npointers = check_pointers(&c, case)?;
    case.nontrivial = npointers >= 1;
    let (back, _) = decode_message(&c).map_err(|e| Fail::new("c07:undecodable", format!("{:?}", e)))?;
    ensure!(names_of(&back) == names_of(&p), "c07:expands-wrong", "{}", diff(&p, &back));
    Ok(())
}

fn strategy(t: Tier) -> BoxedStrategy<In> {
    (gen::sharing(t), prop_oneof![2 => Just(0u16), 1 => any::<u16>()]).boxed()
}

pub fn def() -> CheckDef {
    CheckDef {
        id: "C07",
        rule: "proptest: suffix-sharing packets (as C03, crossing 16 KiB) written with build_bytes_vec_compressed with write_compressed_to on a cursor starting at offset k>0 and on a writer that accepts only 1..5 bytes per write call; an independent schema-aware walker locates every name occurrence (question, owner, RDATA names by type) and checks: every pointer strictly backwards, <= 16383, onto a label start of an earlier-written name, relative to the first byte of the message; reference decoding gives the model's names; no pointer inside SRV/NAPTR/KX/RRSIG/NSEC/IPSECKEY/SVCB/HTTPS names; a question/owner/RFC 1035 RDATA name already written in full at an offset <= 16383 is a single 2-byte pointer. Non-trivial = at least one pointer in the output",
        assumptions: vec!["RP/AFSDB/RT/NSAP-PTR names (RFC 1183/1348) are class 'may': compressed or not is accepted", "same exclusions as C02"],
        sections: vec![
            Box::new(PropSection { name: "pointers", rule: "pointer validity and use", strategy, cases: (200_000, 1_500_000), check }),
            Box::new(EnumSection { name: "many-names", rule: "0..100 distinct many-label names before a repeated name", enumerate: enum_many_names, check: check_many_names, exhaustive: true }),
        ],
    }
}

pub fn check_pub(input: &In, case: &mut Case) -> Result<(), Fail> {
    check(input, case)
}

//! C08 — header bits per RFC 1035 §4.1.1 (exhaustive)
use super::util::*;
use crate::bridge::*;
use crate::driver::CheckDef;
use crate::ensure;
use crate::refmodel::*;
use crate::runner::*;
use simple_dns::{header_buffer, Packet, OPCODE, RCODE};

// my own decomposition of the flags word
const QR: u16 = 1 << 15;
const AA: u16 = 1 << 10;
const TC: u16 = 1 << 9;
const RD: u16 = 1 << 8;
const RA: u16 = 1 << 7;
const Z: u16 = 1 << 6;
const AD: u16 = 1 << 5;
const CD: u16 = 1 << 4;
const BITS: [u16; 7] = [QR, AA, TC, RD, RA, AD, CD];

fn opcode_bits(w: u16) -> u8 {
    ((w >> 11) & 0xf) as u8
}
fn named_opcode(v: u8) -> u8 {
    if NAMED_OPCODES.contains(&v) {
        v
    } else {
        OPCODE_RESERVED
    }
}
fn named_rcode(v: u16) -> u16 {
    if NAMED_RCODES.contains(&v) {
        v
    } else {
        RCODE_RESERVED
    }
}

fn subset(i: u8) -> u16 {
    let mut w = 0;
    for (k, b) in BITS.iter().enumerate() {
        if i & (1 << k) != 0 {
            w |= b;
        }
    }
    w
}

const IDS: [u16; 5] = [0, 1, 0x8000, 0xFFFF, 0xA55A];

fn enum_words(_t: Tier, shard: usize, n: usize, f: &mut dyn FnMut((u16, u16)) -> bool) {
    for word in 0..=65535u16 {
        if !mine(word as usize, shard, n) {
            continue;
        }
        for id in IDS {
            if !f((id, word)) {
                return;
            }
        }
    }
}

fn check_word(input: &(u16, u16), case: &mut Case) -> Result<(), Fail> {
    let (id, word) = *input;
    case.nontrivial = word != 0;
    // counts: zero for parse, sample for the peek functions
    let counts = [id ^ 0x1111, id.rotate_left(3) ^ 7, !id, id.wrapping_mul(3)];
    let mut buf = Vec::new();
    buf.extend_from_slice(&id.to_be_bytes());
    buf.extend_from_slice(&word.to_be_bytes());
    let mut peekbuf = buf.clone();
    buf.extend_from_slice(&[0; 8]);
    for c in counts {
        peekbuf.extend_from_slice(&c.to_be_bytes());
    }

    // ---- peek functions (they do not reject Z)
    let pid = lib("header_buffer::id", || header_buffer::id(&peekbuf))?;
    ensure!(pid == Ok(id), "c08:peek-id", "id() = {:?}, expected {}", pid, id);
    let got = [
        lib("questions", || header_buffer::questions(&peekbuf))?,
        lib("answers", || header_buffer::answers(&peekbuf))?,
        lib("name_servers", || header_buffer::name_servers(&peekbuf))?,
        lib("additional_records", || header_buffer::additional_records(&peekbuf))?,
    ];
    for (k, g) in got.iter().enumerate() {
        ensure!(*g == Ok(counts[k]), "c08:peek-count", "count #{} = {:?}, expected {}", k, g, counts[k]);
    }
    for (b, fl) in FLAG_TABLE {
        let h = lib("has_flags", || header_buffer::has_flags(&peekbuf, fl))?;
        ensure!(h == Ok(word & b != 0), "c08:peek-flag", "has_flags({:#06x}) = {:?} on word {:#06x}", b, h, word);
    }
    let all = flags_of(word);
    let h = lib("has_flags", || header_buffer::has_flags(&peekbuf, all))?;
    ensure!(h == Ok(true), "c08:peek-flag", "has_flags(all set bits) = {:?} on word {:#06x}", h, word);
    let po = lib("opcode", || header_buffer::opcode(&peekbuf))?.map(opcode_code);
    ensure!(po == Ok(named_opcode(opcode_bits(word))), "c08:peek-opcode", "opcode() = {:?} on word {:#06x}", po, word);
    let pr = lib("rcode", || header_buffer::rcode(&peekbuf))?.map(rcode_code);
    ensure!(pr == Ok(named_rcode(word & 15)), "c08:peek-rcode", "rcode() = {:?} on word {:#06x}", pr, word);

    // ---- parse
    let parsed = parse(&buf)?;
    if word & Z != 0 {
        case.class("z-set");
        ensure!(parsed.is_err(), "c08:z-accepted", "word {:#06x} has the reserved Z bit set but parse succeeded", word);
        return Ok(());
    }
    let p = match parsed {
        Ok(p) => p,
        Err(e) => return Err(Fail::new("c08:valid-header-rejected", format!("word {:#06x}: {:?}", word, e))),
    };
    ensure!(p.id() == id, "c08:parse-id", "id {} vs {}", p.id(), id);
    for (b, fl) in FLAG_TABLE {
        ensure!(p.has_flags(fl) == (word & b != 0), "c08:parse-flag", "flag {:#06x} wrong on word {:#06x}", b, word);
    }
    ensure!(p.has_flags(all), "c08:parse-flag", "has_flags(all set bits) false on word {:#06x}", word);
    for (b, fl) in FLAG_TABLE {
        if word & b == 0 {
            ensure!(!p.has_flags(all | fl), "c08:parse-flag", "has_flags(superset) true on word {:#06x}", word);
        }
    }
    ensure!(
        opcode_code(p.opcode()) == named_opcode(opcode_bits(word)),
        "c08:parse-opcode",
        "opcode {:?} on word {:#06x}",
        p.opcode(),
        word
    );
    ensure!(rcode_code(p.rcode()) == named_rcode(word & 15), "c08:parse-rcode", "rcode {:?} on word {:#06x}", p.rcode(), word);
    ensure!(
        p.questions.is_empty() && p.answers.is_empty() && p.name_servers.is_empty() && p.additional_records.is_empty() && p.opt().is_none(),
        "c08:parse-sections",
        "sections not empty for a bare header"
    );

    // ---- re-serialise
    let out = lib("build_bytes_vec", || p.build_bytes_vec())?;
    let out = out.map_err(|e| Fail::new("c08:rebuild-failed", format!("{:?}", e)))?;
    ensure!(out.len() == 12, "c08:rebuild-len", "bare header re-serialised to {} bytes", out.len());
    let outc = lib("build_bytes_vec_compressed", || p.build_bytes_vec_compressed())?.map_err(|e| Fail::new("c08:rebuild-failed", format!("{:?}", e)))?;
    ensure!(outc == out, "c08:rebuild-compressed", "compressed re-serialisation {} differs from plain {}", hex(&outc), hex(&out));
    ensure!(out[0..2] == buf[0..2] && out[4..12] == buf[4..12], "c08:rebuild-id-counts", "id/counts changed: {}", hex(&out));
    let w2 = u16::from_be_bytes([out[2], out[3]]);
    let fb = FLAG_BITS | Z;
    ensure!(w2 & fb == word & fb, "c08:rebuild-flags", "flag bits {:#06x} became {:#06x}", word, w2);
    let named = NAMED_OPCODES.contains(&opcode_bits(word)) && NAMED_RCODES.contains(&(word & 15));
    if named {
        case.class("named");
        ensure!(w2 == word, "c08:rebuild-word", "word {:#06x} became {:#06x}", word, w2);
    }
    Ok(())
}

fn enum_algebra(_t: Tier, shard: usize, n: usize, f: &mut dyn FnMut((u8, u8)) -> bool) {
    for a in 0..128u8 {
        for b in 0..128u8 {
            if mine(a as usize * 128 + b as usize, shard, n) && !f((a, b)) {
                return;
            }
        }
    }
}

fn check_algebra(input: &(u8, u8), case: &mut Case) -> Result<(), Fail> {
    let (a, b) = (subset(input.0), subset(input.1));
    case.nontrivial = a != 0 && b != 0;
    case.extra_evals = 256;
    let observe_bits = |p: &Packet| -> u16 {
        let mut w = 0;
        for (bit, fl) in FLAG_TABLE {
            if p.has_flags(fl) {
                w |= bit
            }
        }
        w
    };
    for start_reply in [false, true] {
        // what a fresh packet starts with is the constructor's choice (today: QR for a reply, nothing for a query);
        // the algebra is stated relative to it
        let fresh = if start_reply { Packet::new_reply(9) } else { Packet::new_query(9) };
        let base = observe_bits(&fresh);
        let mk = || {
            let mut p = if start_reply { Packet::new_reply(9) } else { Packet::new_query(9) };
            *p.opcode_mut() = OPCODE::Update;
            *p.rcode_mut() = RCODE::Refused;
            p.set_flags(flags_of(a));
            p
        };
        let p0 = lib("set_flags", mk)?;
        ensure!(observe_bits(&p0) == a | base, "c08:set", "set_flags({:#06x}) on fresh packet gives {:#06x}", a, observe_bits(&p0));
        let mut p1 = lib("set_flags", mk)?;
        lib("set_flags", || p1.set_flags(flags_of(b)))?;
        ensure!(observe_bits(&p1) == a | b | base, "c08:set", "{:#06x} | {:#06x} gives {:#06x}", a | base, b, observe_bits(&p1));
        let mut p2 = lib("set_flags", mk)?;
        lib("remove_flags", || p2.remove_flags(flags_of(b)))?;
        let want = (a | base) & !b;
        ensure!(observe_bits(&p2) == want, "c08:remove", "{:#06x} minus {:#06x} gives {:#06x}", a | base, b, observe_bits(&p2));
        for p in [&p1, &p2] {
            ensure!(p.opcode() == OPCODE::Update && p.rcode() == RCODE::Refused && p.id() == 9, "c08:algebra-side-effect", "opcode/rcode/id changed by flag operations");
        }
        // has_flags(x) iff x is a subset, for all 128 probes
        for (p, have) in [(&p1, a | b | base), (&p2, want)] {
            for x in 0..128u8 {
                let xs = subset(x);
                ensure!(p.has_flags(flags_of(xs)) == (xs & !have == 0), "c08:has", "has_flags({:#06x}) wrong on {:#06x}", xs, have);
            }
        }
        // and the wire agrees
        let out = lib("build_bytes_vec", || p2.build_bytes_vec())?.map_err(|e| Fail::new("c08:build-failed", format!("{:?}", e)))?;
        let w = u16::from_be_bytes([out[2], out[3]]);
        ensure!(w == want | (5 << 11) | 5, "c08:algebra-wire", "wire word {:#06x}, expected {:#06x}", w, want | (5 << 11) | 5);
    }
    Ok(())
}

fn enum_build(_t: Tier, shard: usize, n: usize, f: &mut dyn FnMut((u8, u16, u8)) -> bool) {
    let mut i = 0;
    for op in NAMED_OPCODES {
        for rc in NAMED_RCODES {
            for fl in 0..128u8 {
                i += 1;
                if mine(i, shard, n) && !f((op, rc, fl)) {
                    return;
                }
            }
        }
    }
}

fn check_build(input: &(u8, u16, u8), case: &mut Case) -> Result<(), Fail> {
    let (op, rc, fl) = *input;
    let flags = subset(fl);
    case.nontrivial = true;
    let ap = APacket {
        id: 0xBEEF,
        flags,
        opcode: op,
        rcode: rc,
        edns: if rc > 15 { Some(AEdns { udp: 512, version: 0, options: vec![] }) } else { None },
        ..Default::default()
    };
    let p = lib("build", || build(&ap))?.map_err(|e| Fail::new("harness:build", e))?;
    let out = lib("build_bytes_vec", || p.build_bytes_vec())?.map_err(|e| Fail::new("c08:build-failed", format!("{:?}", e)))?;
    ensure!(out.len() >= 12, "c08:build-short", "{} bytes", out.len());
    let w = u16::from_be_bytes([out[2], out[3]]);
    let want = flags | ((op as u16) << 11) | (rc & 15);
    ensure!(u16::from_be_bytes([out[0], out[1]]) == 0xBEEF, "c08:build-id", "id wrong");
    ensure!(w == want, "c08:build-word", "opcode {} rcode {} flags {:#06x}: word {:#06x}, expected {:#06x}", op, rc, flags, w, want);
    let arcount = u16::from_be_bytes([out[10], out[11]]);
    ensure!(out[4..10] == [0; 6] && arcount == (rc > 15) as u16, "c08:build-counts", "counts wrong: {}", hex(&out[..12]));
    // every serialisation entry point writes the same header
    let outc = lib("build_bytes_vec_compressed", || p.build_bytes_vec_compressed())?.map_err(|e| Fail::new("c08:build-failed", format!("{:?}", e)))?;
    ensure!(outc.len() >= 12 && outc[..12] == out[..12], "c08:build-header-compressed", "compressed writer header {} differs from plain {}", hex(&outc[..outc.len().min(12)]), hex(&out[..12]));
    let mut cur = std::io::Cursor::new(Vec::new());
    lib("write_to", || p.write_to(&mut cur))?.map_err(|e| Fail::new("c08:build-failed", format!("{:?}", e)))?;
    ensure!(cur.get_ref()[..] == out[..], "c08:build-header-writer", "write_to differs from build_bytes_vec");
    // a writer that takes one byte per write call still receives the same header
    let mut w = super::c04::ChunkedWriter { inner: std::io::Cursor::new(Vec::new()), chunk: 1 };
    lib("write_to", || p.write_to(&mut w))?.map_err(|e| Fail::new("c08:build-failed", format!("{:?}", e)))?;
    ensure!(w.inner.get_ref()[..] == out[..], "c08:build-header-short-writes", "a writer accepting one byte per call receives {} instead of {}", hex(&w.inner.get_ref()[..w.inner.get_ref().len().min(12)]), hex(&out[..12]));
    let mut w = super::c04::ChunkedWriter { inner: std::io::Cursor::new(Vec::new()), chunk: 3 };
    lib("write_compressed_to", || p.write_compressed_to(&mut w))?.map_err(|e| Fail::new("c08:build-failed", format!("{:?}", e)))?;
    ensure!(w.inner.get_ref()[..] == outc[..], "c08:build-header-short-writes", "a writer accepting three bytes per call receives a different compressed message");
    // a message appended to a stream that already holds something (a two-octet length prefix, an earlier message,
    // exactly twelve octets): its header goes to the first twelve octets of the message itself
    for k in [2usize, 12, 12 + outc.len(), 40] {
        for compressed in [false, true] {
            let prefix: Vec<u8> = (0..k).map(|j| 0xA0u8 ^ j as u8).collect();
            let mut cur = std::io::Cursor::new(prefix.clone());
            cur.set_position(k as u64);
            let what = if compressed { "write_compressed_to" } else { "write_to" };
            let r = if compressed { lib(what, || p.write_compressed_to(&mut cur))? } else { lib(what, || p.write_to(&mut cur))? };
            r.map_err(|e| Fail::new("c08:build-failed", format!("{} at stream position {}: {:?}", what, k, e)))?;
            let v = cur.into_inner();
            ensure!(v.len() >= k + 12, "c08:build-header-at-offset", "{} at stream position {}: only {} octets in the stream", what, k, v.len());
            ensure!(v[k..k + 12] == out[..12], "c08:build-header-at-offset", "{} at stream position {}: the message starts with {} instead of the header {}", what, k, hex(&v[k..k + 12]), hex(&out[..12]));
            // (octets before the message are C04's statement, not this one)
        }
    }
    case.extra_evals = 8;
    // parse back
    let back = parse(&out)?.map_err(|e| Fail::new("c08:build-unparseable", format!("{:?}", e)))?;
    let o = observe(&back);
    ensure!(o.flags == flags && o.opcode == op && o.rcode == rc && o.id == 0xBEEF, "c08:build-roundtrip", "{}", diff(&ap, &o));
    Ok(())
}

/// a parsed header whose opcode / response code / flags are then changed must serialise the new
/// values at their bit positions (nothing of the received word may leak back)
fn enum_modify(_t: Tier, shard: usize, n: usize, f: &mut dyn FnMut((u16, u8, u16, u8)) -> bool) {
    let mut i = 0usize;
    for word in 0..=65535u16 {
        if word & Z != 0 {
            continue;
        }
        i += 1;
        if !mine(i, shard, n) {
            continue;
        }
        // every (opcode, rcode) pair, with a flag set derived from the word so that all 128 occur
        for (k, op) in NAMED_OPCODES.iter().enumerate() {
            for (j, rc) in NAMED_RCODES.iter().enumerate() {
                let fl = ((word as usize).wrapping_mul(31) + k * 12 + j) as u8 & 0x7f;
                if !f((word, *op, *rc, fl)) {
                    return;
                }
            }
        }
    }
}

fn check_modify(input: &(u16, u8, u16, u8), case: &mut Case) -> Result<(), Fail> {
    let (word, op, rc, fl) = *input;
    case.nontrivial = word & !(FLAG_BITS) != 0;
    let mut buf = vec![0x12, 0x34];
    buf.extend_from_slice(&word.to_be_bytes());
    buf.extend_from_slice(&[0; 8]);
    let mut p = parse(&buf)?.map_err(|e| Fail::new("c08:valid-header-rejected", format!("word {:#06x}: {:?}", word, e)))?;
    let target = subset(fl);
    lib("opcode_mut", || *p.opcode_mut() = opcode_of(op).unwrap())?;
    lib("rcode_mut", || *p.rcode_mut() = rcode_of(rc & 15).unwrap_or(simple_dns::RCODE::NoError))?;
    // bring the flag set to `target` with set/remove only
    let have = word & FLAG_BITS;
    lib("set_flags", || p.set_flags(flags_of(target & !have)))?;
    lib("remove_flags", || p.remove_flags(flags_of(have & !target)))?;
    let rc4 = if NAMED_RCODES.contains(&(rc & 15)) { rc & 15 } else { 0 };
    // a new id through set_id: only the id changes
    let new_id = word.rotate_left(3) ^ 0x5a5a;
    lib("set_id", || p.set_id(new_id))?;
    ensure!(lib("id", || p.id())? == new_id, "c08:set-id", "id() = {:#06x} after set_id({:#06x})", p.id(), new_id);
    let out = lib("build_bytes_vec", || p.build_bytes_vec())?.map_err(|e| Fail::new("c08:rebuild-failed", format!("{:?}", e)))?;
    ensure!(out.len() == 12 && out[0..2] == new_id.to_be_bytes() && out[4..12] == [0u8; 8], "c08:set-id", "after set_id({:#06x}) the header is {}", new_id, hex(&out[..out.len().min(12)]));
    let w2 = u16::from_be_bytes([out[2], out[3]]);
    let want = target | ((op as u16) << 11) | rc4;
    ensure!(
        w2 == want,
        "c08:modify-after-parse",
        "received word {:#06x}, then opcode := {}, rcode := {}, flags := {:#06x}: serialised word {:#06x}, expected {:#06x}",
        word,
        op,
        rc4,
        target,
        w2,
        want
    );
    for (b, flg) in FLAG_TABLE {
        ensure!(p.has_flags(flg) == (target & b != 0), "c08:modify-flags", "flag {:#06x} wrong after set/remove on a parsed header {:#06x}", b, word);
    }
    Ok(())
}

/// every Z-clear word followed by an OPT pseudo-record: the header fields are still reported
/// exactly, the response code is (ext << 4) | low nibble, and the counts are written back by all writers
fn enum_with_opt(_t: Tier, shard: usize, n: usize, f: &mut dyn FnMut((u16, u8, u8)) -> bool) {
    let mut i = 0usize;
    for word in 0..=65535u16 {
        if word & Z != 0 {
            continue;
        }
        i += 1;
        if !mine(i, shard, n) {
            continue;
        }
        for version in [0u8, 1, 0x0f, 0x10, 0x80, 0xff] {
            for ext in [0u8, 1] {
                if !f((word, version, ext)) {
                    return;
                }
            }
        }
    }
}

fn check_with_opt(input: &(u16, u8, u8), case: &mut Case) -> Result<(), Fail> {
    let (word, version, ext) = *input;
    case.nontrivial = version != 0 || ext != 0;
    let mut m = vec![0xab, 0xcd];
    m.extend_from_slice(&word.to_be_bytes());
    m.extend_from_slice(&[0, 0, 0, 0, 0, 0, 0, 1]);
    // root owner, TYPE 41, CLASS 1232, TTL = ext, version, 0, 0, RDLENGTH 0
    m.extend_from_slice(&[0, 0, 41, 0x04, 0xd0, ext, version, 0, 0, 0, 0]);
    let p = parse(&m)?.map_err(|e| Fail::new("c08:valid-header-rejected", format!("word {:#06x} with OPT: {:?}", word, e)))?;
    ensure!(p.id() == 0xabcd, "c08:parse-id", "id {:#06x}", p.id());
    for (b, fl) in FLAG_TABLE {
        ensure!(p.has_flags(fl) == (word & b != 0), "c08:parse-flag", "flag {:#06x} wrong on word {:#06x} with OPT", b, word);
    }
    ensure!(opcode_code(p.opcode()) == named_opcode(opcode_bits(word)), "c08:parse-opcode", "opcode {:?} on word {:#06x} with OPT", p.opcode(), word);
    let full = ((ext as u16) << 4) | (word & 15);
    ensure!(
        rcode_code(p.rcode()) == named_rcode(full),
        "c08:parse-rcode-opt",
        "word {:#06x} (low nibble {}) with OPT ext-rcode {} version {}: rcode() = {:?}, expected the code {}",
        word,
        word & 15,
        ext,
        version,
        p.rcode(),
        full
    );
    let opt = p.opt().ok_or_else(|| Fail::new("c08:opt-missing", "opt() is None"))?;
    // (what the OPT record's own fields say is C09's statement, not this one)
    let _ = (opt.version, opt.udp_packet_size);
    // counts written back by every writer
    for compressed in [false, true] {
        let out = if compressed { lib("build_bytes_vec_compressed", || p.build_bytes_vec_compressed())? } else { lib("build_bytes_vec", || p.build_bytes_vec())? };
        let out = out.map_err(|e| Fail::new("c08:rebuild-failed", format!("{:?}", e)))?;
        ensure!(out.len() >= 12 && out[4..12] == [0, 0, 0, 0, 0, 0, 0, 1], "c08:rebuild-counts-opt", "compressed={}: counts {} for a message with one OPT record", compressed, hex(&out[4..out.len().min(12)]));
        let w2 = u16::from_be_bytes([out[2], out[3]]);
        ensure!(w2 & (FLAG_BITS | Z) == word & (FLAG_BITS | Z), "c08:rebuild-flags", "flag bits {:#06x} became {:#06x}", word, w2);
        if NAMED_OPCODES.contains(&opcode_bits(word)) && NAMED_RCODES.contains(&full) {
            ensure!(w2 == word, "c08:rebuild-word", "word {:#06x} became {:#06x} (OPT present)", word, w2);
        }
    }
    Ok(())
}

/// the four counts: N entries actually present in one section are reported as N entries by the parser,
/// by the peek functions, and written back as N
fn enum_counts(_t: Tier, shard: usize, n: usize, f: &mut dyn FnMut((u8, u16)) -> bool) {
    let mut i = 0;
    for section in 0..4u8 {
        for count in crate::gen::sizes_u16(&[0u16, 1, 2, 3, 17, 100, 127, 128, 179, 180, 181, 182, 200, 255, 256, 257, 300, 512, 1000, 4095, 4096, 5000], 1100) {
            i += 1;
            if mine(i, shard, n) && !f((section, count)) {
                return;
            }
        }
    }
}

fn check_counts(input: &(u8, u16), case: &mut Case) -> Result<(), Fail> {
    let (section, count) = *input;
    case.nontrivial = count > 1;
    let mut m = vec![0x11, 0x22, 0x80, 0x00, 0, 0, 0, 0, 0, 0, 0, 0];
    let o = 4 + 2 * section as usize;
    m[o..o + 2].copy_from_slice(&count.to_be_bytes());
    for k in 0..count {
        // root name; question: QTYPE A, QCLASS IN; record: type A class IN ttl k rdlength 4
        if section == 0 {
            m.extend_from_slice(&[0, 0, 1, 0, 1]);
        } else {
            m.extend_from_slice(&[0, 0, 1, 0, 1, 0, 0, (k >> 8) as u8, k as u8, 0, 4, 10, 0, (k >> 8) as u8, k as u8]);
        }
    }
    let peek = [
        lib("questions", || header_buffer::questions(&m))?,
        lib("answers", || header_buffer::answers(&m))?,
        lib("name_servers", || header_buffer::name_servers(&m))?,
        lib("additional_records", || header_buffer::additional_records(&m))?,
    ];
    for k in 0..4 {
        ensure!(peek[k] == Ok(if k == section as usize { count } else { 0 }), "c08:peek-count", "peek count #{} = {:?}", k, peek[k]);
    }
    let p = match parse(&m)? {
        Ok(p) => p,
        // beyond 65535 octets there is no DNS message: a refusal makes no claim
        Err(_) if m.len() > 65535 => {
            case.class("longer-than-a-dns-message-and-refused:no-claim");
            return Ok(());
        }
        Err(e) => return Err(Fail::new("c08:counts-rejected", format!("{} entries in section {}: {:?}", count, section, e))),
    };
    let got = [p.questions.len(), p.answers.len(), p.name_servers.len(), p.additional_records.len()];
    for k in 0..4 {
        ensure!(got[k] == if k == section as usize { count as usize } else { 0 }, "c08:parse-counts", "the header announces {} entries in section {} and they are present, the parsed packet holds {:?}", count, section, got);
    }
    for compressed in [false, true] {
        let out = if compressed { lib("build_bytes_vec_compressed", || p.build_bytes_vec_compressed())? } else { lib("build_bytes_vec", || p.build_bytes_vec())? };
        let out = out.map_err(|e| Fail::new("c08:rebuild-failed", format!("{:?}", e)))?;
        ensure!(out.len() >= 12 && out[4..12] == m[4..12], "c08:rebuild-counts", "counts {} re-serialised as {} (compressed={})", hex(&m[4..12]), hex(&out[4..out.len().min(12)]), compressed);
        if !compressed {
            ensure!(out == m, "c08:rebuild-message", "{} entries in section {}: the uncompressed re-serialisation differs from the input", count, section);
        }
    }
    Ok(())
}

/// all four counts at once (0..=3 each) with three variants: exact; the last non-empty section announcing more
/// entries than are present (the data ends on an entry boundary); OPT records among the additional entries
fn enum_mixed(_t: Tier, shard: usize, n: usize, f: &mut dyn FnMut((u8, u8, u8, u8, u8)) -> bool) {
    let mut i = 0;
    for q in 0..4u8 {
        for an in 0..4u8 {
            for ns in 0..4u8 {
                for ar in 0..4u8 {
                    for variant in 0..5u8 {
                        i += 1;
                        if mine(i, shard, n) && !f((q, an, ns, ar, variant)) {
                            return;
                        }
                    }
                }
            }
        }
    }
}

fn check_mixed(input: &(u8, u8, u8, u8, u8), case: &mut Case) -> Result<(), Fail> {
    let (q, an, ns, ar, variant) = *input;
    let present = [q as u16, an as u16, ns as u16, ar as u16];
    let mut header = present;
    // variants 1, 2: the last non-empty section says one / three more than it holds
    let overstated = matches!(variant, 1 | 2);
    if overstated {
        let Some(k) = (0..4).rev().find(|k| present[*k] > 0) else { return Ok(()) };
        header[k] += if variant == 1 { 1 } else { 3 };
    }
    // variants 3, 4: OPT records in the additional section (3: the first entry; 4: the first and the last)
    let opts: Vec<usize> = match variant {
        3 if ar >= 1 => vec![0],
        4 if ar >= 2 => vec![0, ar as usize - 1],
        3 | 4 => return Ok(()),
        _ => vec![],
    };
    case.nontrivial = present.iter().filter(|c| **c > 0).count() >= 2 || overstated || !opts.is_empty();
    case.class(match variant { 0 => "exact", 1 | 2 => "overstated", _ => "with-opt" });
    let mut m = vec![0x33, 0x44, 0x80, 0x00];
    for c in header {
        m.extend_from_slice(&c.to_be_bytes());
    }
    for _ in 0..q {
        m.extend_from_slice(&[0, 0, 1, 0, 1]);
    }
    for (sec, count) in [(1usize, an), (2, ns), (3, ar)] {
        for k in 0..count as usize {
            if sec == 3 && opts.contains(&k) {
                // OPT: root owner, TYPE 41, CLASS = udp size 1232, TTL 0, no options
                m.extend_from_slice(&[0, 0, 41, 0x04, 0xd0, 0, 0, 0, 0, 0, 0]);
            } else {
                m.extend_from_slice(&[0, 0, 1, 0, 1, 0, 0, 0, sec as u8, 0, 4, 10, 0, sec as u8, k as u8]);
            }
        }
    }
    let peek = [
        lib("questions", || header_buffer::questions(&m))?,
        lib("answers", || header_buffer::answers(&m))?,
        lib("name_servers", || header_buffer::name_servers(&m))?,
        lib("additional_records", || header_buffer::additional_records(&m))?,
    ];
    for k in 0..4 {
        ensure!(peek[k] == Ok(header[k]), "c08:peek-count", "peek count #{} = {:?}, the header holds {}", k, peek[k], header[k]);
    }
    let parsed = parse(&m)?;
    let p = match parsed {
        Ok(p) => p,
        Err(e) => {
            // (a message with two OPT records may be refused as a whole, RFC 6891 6.1.1: no claim then)
            ensure!(overstated || opts.len() >= 2, "c08:counts-rejected", "counts {:?} with all entries present: {:?}", header, e);
            return Ok(());
        }
    };
    // whatever is accepted reports the four counts of its header
    let got = [p.questions.len() as u16, p.answers.len() as u16, p.name_servers.len() as u16, p.additional_records.len() as u16 + u16::from(p.opt().is_some())];
    ensure!(got == header, "c08:parse-counts", "the header holds counts {:?} ({:?} entries present), the parsed packet reports {:?} (OPT counted with the additional records)", header, present, got);
    for compressed in [false, true] {
        let out = if compressed { lib("build_bytes_vec_compressed", || p.build_bytes_vec_compressed())? } else { lib("build_bytes_vec", || p.build_bytes_vec())? };
        let out = out.map_err(|e| Fail::new("c08:rebuild-failed", format!("{:?}", e)))?;
        ensure!(out.len() >= 12 && out[4..12] == m[4..12], "c08:rebuild-counts", "counts {} re-serialised as {} (compressed={})", hex(&m[4..12]), hex(&out[4..out.len().min(12)]), compressed);
    }
    Ok(())
}

pub fn def() -> CheckDef {
    CheckDef {
        id: "C08",
        rule: "exhaustive enumeration: all 65536 flag words x 5 ids through peek/parse/re-serialise; all 128x128 flag-set pairs x 2 constructors x 128 probes; 5 named opcodes x 12 named rcodes x 128 flag subsets on the build side (all writers incl. writers accepting 1 / 3 bytes per call); 22 entry counts from 0 to 5000 actually present in each of the four sections (parser, peek functions, re-serialisation); all 32768 Z-clear words followed by an OPT record (6 versions x 2 extended rcodes); all 32768 Z-clear received words x 60 (opcode, rcode) pairs assigned after parsing (with flag sets brought to a target by set/remove) and re-serialised. all four counts 0..=3 at once in three variants (exact; the last non-empty section announcing 1 or 3 more entries than the data, which ends on an entry boundary, holds; OPT records as first / first and last additional entry): an accepted message reports exactly the counts of its header (OPT counted with the additional records) and writes them back. Every case is distinct by construction; non-trivial = word != 0 / both sets non-empty / every build case",
        assumptions: vec!["bit layout transcribed from RFC 1035 section 4.1.1 (+ AD/CD from RFC 2535) in checks/c08.rs"],
        sections: vec![
            Box::new(EnumSection {
                name: "words",
                rule: "all 65536 flag words x ids {0,1,0x8000,0xFFFF,0xA55A}",
                enumerate: enum_words,
                check: check_word,
                exhaustive: true,
            }),
            Box::new(EnumSection {
                name: "algebra",
                rule: "all 128x128 (a,b) flag-set pairs",
                enumerate: enum_algebra,
                check: check_algebra,
                exhaustive: true,
            }),
            Box::new(EnumSection { name: "counts", rule: "0..5000 entries actually present in each section", enumerate: enum_counts, check: check_counts, exhaustive: true }),
            Box::new(EnumSection { name: "counts-mixed", rule: "all four counts 0..=3 at once: exact, overstated, with OPT records", enumerate: enum_mixed, check: check_mixed, exhaustive: true }),
            Box::new(EnumSection {
                name: "words-with-opt",
                rule: "all Z-clear words x 6 EDNS versions x 2 extended rcodes",
                enumerate: enum_with_opt,
                check: check_with_opt,
                exhaustive: true,
            }),
            Box::new(EnumSection {
                name: "modify-after-parse",
                rule: "all Z-clear words parsed, then every named (opcode, rcode) pair and a flag set assigned",
                enumerate: enum_modify,
                check: check_modify,
                exhaustive: true,
            }),
            Box::new(EnumSection {
                name: "build",
                rule: "named opcode x named rcode x flag subset",
                enumerate: enum_build,
                check: check_build,
                exhaustive: true,
            }),
        ],
    }
}

//! C09 — EDNS(0) data is carried per RFC 6891
use super::util::*;
use crate::bridge::*;
use crate::driver::CheckDef;
use crate::ensure;
use crate::gen;
use crate::refmodel::*;
use crate::runner::*;
use proptest::collection::vec;
use proptest::prelude::*;
use proptest::sample::select;

/// (rcode, edns, other additional records, a question?, flags)
type BuildIn = (u16, AEdns, Vec<ARecord>, Option<AQuestion>, u16, Vec<ARecord>, Vec<ARecord>);

fn build_strategy(_t: Tier) -> BoxedStrategy<BuildIn> {
    (
        select(NAMED_RCODES.to_vec()),
        gen::aedns(),
        vec(gen::arecord(), 0..=3),
        proptest::option::of(gen::aquestion()),
        gen::flag_bits(),
        vec(gen::arecord(), 0..=2),
        vec(gen::arecord(), 0..=2),
    )
        .boxed()
}

fn check_build(input: &BuildIn, case: &mut Case) -> Result<(), Fail> {
    let (rcode, edns, others, q, flags, answers, authorities) = input;
    case.nontrivial = !edns.options.is_empty() || *rcode > 15 || !others.is_empty();
    if *rcode > 15 {
        case.class("extended-rcode");
    }
    if !others.is_empty() {
        case.class("other-additionals");
    }
    let p = gen::fit(APacket {
        id: 0x4242,
        flags: *flags,
        opcode: 0,
        rcode: *rcode,
        edns: Some(edns.clone()),
        questions: q.iter().cloned().collect(),
        additionals: others.clone(),
        answers: answers.clone(),
        authorities: authorities.clone(),
    });
    if !authorities.is_empty() {
        case.class("with-authority-records");
    }
    let pk = lib("build", || build(&p))?.map_err(|e| Fail::new("harness:build", e))?;
    for compressed in [false, true] {
        let out = if compressed { ser_compressed(&pk) } else { ser_plain(&pk) }.map_err(|f| Fail::new("c09:build-failed", f.msg))?;
        let what = if compressed { "compressed" } else { "plain" };
        let w = walk(&out).map_err(|e| Fail::new("c09:unwalkable", format!("{} output does not walk: {:?}", what, e)))?;
        ensure!(w.end == out.len(), "c09:unwalkable", "{}: trailing bytes", what);
        let opts: Vec<&WRecord> = w.records.iter().filter(|r| r.rtype == 41).collect();
        ensure!(opts.len() == 1, "c09:opt-count", "{}: {} OPT records written, expected exactly one", what, opts.len());
        let o = opts[0];
        ensure!(o.section == 2, "c09:opt-section", "{}: OPT record written in section {}", what, o.section);
        ensure!(w.counts[3] as usize == p.additionals.len() + 1, "c09:arcount", "{}: ARCOUNT {} for {} additional records + OPT", what, w.counts[3], p.additionals.len());
        ensure!(w.section(2).count() == p.additionals.len() + 1, "c09:arcount", "{}: additional section holds {} records", what, w.section(2).count());
        ensure!(out[o.off] == 0 && o.name.next == o.off + 1, "c09:opt-owner", "{}: OPT owner name is not the single root octet", what);
        ensure!(o.class_raw == edns.udp, "c09:opt-class", "{}: CLASS {} should hold the UDP payload size {}", what, o.class_raw, edns.udp);
        let ttl = o.ttl.to_be_bytes();
        let want = [(rcode >> 4) as u8, edns.version];
        ensure!(ttl[..2] == want, "c09:opt-ttl", "{}: TTL octets {:02x?}, RFC 6891 6.1.3 wants [ext-rcode, version, flags..] = {:02x?}..", what, ttl, want);
        let mut rd = Vec::new();
        for (k, v) in &edns.options {
            rd.extend_from_slice(&k.to_be_bytes());
            rd.extend_from_slice(&(v.len() as u16).to_be_bytes());
            rd.extend_from_slice(v);
        }
        ensure!(out[o.rdata_off..o.end] == rd[..], "c09:opt-rdata", "{}: RDATA {} expected {}", what, hex(&out[o.rdata_off..o.end]), hex(&rd));
        ensure!(w.flags_word & 15 == rcode & 15, "c09:header-nibble", "{}: header RCODE nibble {} for response code {}", what, w.flags_word & 15, rcode);
        // the same bytes reach a writer that only takes a few bytes per write call
        {
            let chunk = 1 + (edns.udp as usize % 7);
            let mut w = super::c04::ChunkedWriter { inner: std::io::Cursor::new(Vec::new()), chunk };
            let r = if compressed { lib("write_compressed_to", || pk.write_compressed_to(&mut w))? } else { lib("write_to", || pk.write_to(&mut w))? };
            r.map_err(|e| Fail::new("c09:build-failed", format!("{} writer accepting {} bytes per call: {:?}", what, chunk, e)))?;
            let v = w.inner.into_inner();
            ensure!(v == out, "c09:short-writes", "{}: a writer accepting {} bytes per call receives {} bytes, the vector-returning entry point produced {}", what, chunk, v.len(), out.len());
        }
        // and the reference decoder reads back the model
        let (back, _) = decode_message(&out).map_err(|e| Fail::new("c09:undecodable", format!("{}: {:?}", what, e)))?;
        // EDNS data, response code and the other additional records (their owners and types, in order): the rest of the
        // packet is C02's business
        let brief = |x: &APacket| (x.edns.clone(), x.rcode, x.additionals.iter().map(|r| (r.name.clone(), r.rdata.code())).collect::<Vec<_>>());
        ensure!(brief(&back) == brief(&p), "c09:build-decodes-differently", "{}: {}", what, diff(&p, &back));
    }
    Ok(())
}

/// (packet with edns, OPT position, OPT flag bits, 12-bit rcode, compression choices)
type ParseIn = (APacket, u8, u16, u16, Vec<u8>);

fn parse_strategy(_t: Tier) -> BoxedStrategy<ParseIn> {
    (
        (any::<u16>(), gen::flag_bits(), select(NAMED_OPCODES.to_vec())),
        gen::aedns(),
        vec(gen::aquestion(), 0..=2),
        vec(gen::arecord(), 0..=2),
        vec(gen::arecord(), 0..=3),
        0u8..5,
        prop_oneof![Just(0u16), Just(0x8000), any::<u16>()],
        prop_oneof![
            4 => select(NAMED_RCODES.to_vec()),
            2 => 0u16..4096,
            1 => select(vec![11u16, 15, 17, 23, 0xfff, 0x100, 0x010]),
        ],
        vec(any::<u8>(), 0..5),
    )
        .prop_map(|((id, flags, opcode), edns, questions, answers, additionals, pos, eflags, rcode, choices)| {
            (
                gen::fit(APacket { id, flags, opcode, rcode, edns: Some(edns), questions, answers, authorities: vec![], additionals }),
                pos,
                eflags,
                rcode,
                choices,
            )
        })
        .boxed()
}

fn check_parse(input: &ParseIn, case: &mut Case) -> Result<(), Fail> {
    let (p, pos, eflags, rcode, choices) = input;
    let edns = p.edns.as_ref().unwrap();
    case.nontrivial = !edns.options.is_empty() || rcode >> 4 != 0 || !p.additionals.is_empty();
    let mut opts = if choices.is_empty() { EncOpts::plain() } else { EncOpts::foreign(choices.clone()) };
    opts.edns_pos = *pos as usize;
    opts.edns_flags = *eflags;
    case.class(format!("opt-at-{}-of-{}", opts.edns_pos.min(p.additionals.len()), p.additionals.len()));
    if rcode >> 4 != 0 {
        case.class("extended-rcode");
    }
    if !NAMED_RCODES.contains(rcode) {
        case.class("unnamed-rcode");
    }
    let wire = encode_message(p, &opts);
    let pk = parse(&wire)?.map_err(|e| Fail::new("c09:rejected", format!("well-formed EDNS message rejected: {:?}; {}", e, hex(&wire[..wire.len().min(120)]))))?;
    ensure!(
        !pk.additional_records.iter().any(|r| u16::from(r.rdata.type_code()) == 41),
        "c09:opt-left-in-additional",
        "an OPT record remains in additional_records after parsing"
    );
    let opt = pk.opt().ok_or_else(|| Fail::new("c09:opt-missing", "opt() is None for a message with an OPT record"))?;
    ensure!(opt.udp_packet_size == edns.udp, "c09:parse-udp", "udp size {} vs {}", opt.udp_packet_size, edns.udp);
    ensure!(opt.version == edns.version, "c09:parse-version", "version {} vs {}", opt.version, edns.version);
    let o = lib("observe", || observe(&pk))?;
    let want = as_library_shows(p.clone());
    if o.rcode != want.rcode {
        return Err(Fail::new("c09:parse-rcode", format!("12-bit response code {} (ext {} / low {}) shown as {}", rcode, rcode >> 4, rcode & 15, o.rcode)));
    }
    let brief = |x: &APacket| (x.edns.clone(), x.additionals.iter().map(|r| (r.name.clone(), r.rdata.code())).collect::<Vec<_>>());
    ensure!(brief(&o) == brief(&want), "c09:parse-mismatch", "{}", diff(&want, &o));
    Ok(())
}

/// a received message with EDNS data whose EDNS members and response code are then replaced through the public
/// mutators and written again: the wire shows the new values only (no state left over from the parse)
type ModIn = (ParseIn, AEdns, u16, bool);

fn modify_strategy(t: Tier) -> BoxedStrategy<ModIn> {
    (parse_strategy(t), gen::aedns(), select(NAMED_RCODES.to_vec()), any::<bool>()).boxed()
}

fn check_modify(input: &ModIn, case: &mut Case) -> Result<(), Fail> {
    use simple_dns::rdata::{OPTCode, OPT};
    let ((p, pos, eflags, _rcode, choices), new_edns, new_rcode, whole) = input;
    let mut opts = if choices.is_empty() { EncOpts::plain() } else { EncOpts::foreign(choices.clone()) };
    opts.edns_pos = *pos as usize;
    opts.edns_flags = *eflags;
    let wire = encode_message(p, &opts);
    let mut pk = parse(&wire)?.map_err(|e| Fail::new("c09:rejected", format!("well-formed EDNS message rejected: {:?}", e)))?;
    let old = p.edns.as_ref().unwrap();
    case.nontrivial = old.version != new_edns.version || old.udp != new_edns.udp;
    case.class(if *whole { "opt-replaced" } else { "opt-fields-edited" });
    let codes: Vec<OPTCode> = new_edns.options.iter().map(|(k, v)| OPTCode { code: *k, data: std::borrow::Cow::Owned(v.0.clone()) }).collect();
    // baseline: the parsed packet written back untouched must frame (one OPT found by the walker); if it does not, the
    // other records are re-serialised wrongly (C11's statement) and the OPT cannot be located: no claim for that form
    let mut base_ok = [true, true];
    for compressed in [false, true] {
        let framed = if compressed { ser_compressed(&pk) } else { ser_plain(&pk) }
            .ok()
            .and_then(|b| walk(&b).ok().map(|w| w.end == b.len() && w.records.iter().filter(|r| r.rtype == 41 && r.section == 2).count() == 1))
            .unwrap_or(false);
        base_ok[compressed as usize] = framed;
    }
    if *whole {
        lib("opt_mut", || *pk.opt_mut() = Some(OPT { opt_codes: codes.clone(), udp_packet_size: new_edns.udp, version: new_edns.version }))?;
    } else {
        lib("opt_mut", || {
            if let Some(o) = pk.opt_mut().as_mut() {
                o.version = new_edns.version;
                o.udp_packet_size = new_edns.udp;
                o.opt_codes = codes.clone();
            }
        })?;
    }
    let named = simple_dns::RCODE::from(*new_rcode);
    lib("rcode_mut", || *pk.rcode_mut() = named)?;
    for compressed in [false, true] {
        if !base_ok[compressed as usize] {
            case.class("unmodified-packet-does-not-frame-when-written-back:no-claim");
            continue;
        }
        let out = if compressed { ser_compressed(&pk) } else { ser_plain(&pk) }.map_err(|f| Fail::new("c09:build-failed", f.msg))?;
        let what = if compressed { "compressed" } else { "plain" };
        let w = walk(&out).map_err(|e| Fail::new("c09:unwalkable", format!("{} output after opt_mut does not walk: {:?}", what, e)))?;
        let recs: Vec<&WRecord> = w.records.iter().filter(|r| r.rtype == 41 && r.section == 2).collect();
        ensure!(recs.len() == 1, "c09:opt-count", "{}: {} OPT records written after opt_mut", what, recs.len());
        let o = recs[0];
        ensure!(o.class_raw == new_edns.udp, "c09:modify-class", "{}: parsed udp size {}, set to {}, written CLASS {}", what, old.udp, new_edns.udp, o.class_raw);
        let ttl = o.ttl.to_be_bytes();
        ensure!(ttl[0] == (new_rcode >> 4) as u8 && ttl[1] == new_edns.version, "c09:modify-ttl", "{}: parsed version {} / set to {}, rcode set to {}: TTL octets {:02x?}, expected [{:#04x}, {:#04x}, ..]", what, old.version, new_edns.version, new_rcode, ttl, new_rcode >> 4, new_edns.version);
        let mut rd = Vec::new();
        for (k, v) in &new_edns.options {
            rd.extend_from_slice(&k.to_be_bytes());
            rd.extend_from_slice(&(v.len() as u16).to_be_bytes());
            rd.extend_from_slice(v);
        }
        ensure!(out[o.rdata_off..o.end] == rd[..], "c09:modify-rdata", "{}: RDATA {} expected {}", what, hex(&out[o.rdata_off..o.end]), hex(&rd));
        ensure!(w.flags_word & 15 == new_rcode & 15, "c09:header-nibble", "{}: header RCODE nibble {} for response code {}", what, w.flags_word & 15, new_rcode);
    }
    // The additional section of the received packet is then edited as well (cleared, last record dropped, cut to one
    // record): the packet still has EDNS data set, so exactly one OPT is written and counted, wherever the OPT stood
    // in the received message.
    let edit = p.id % 4;
    if edit != 0 && !pk.additional_records.is_empty() {
        let before = pk.additional_records.len();
        lib("additional_records edit", || match edit {
            1 => pk.additional_records.clear(),
            2 => {
                pk.additional_records.pop();
            }
            _ => pk.additional_records.truncate(1),
        })?;
        let left = pk.additional_records.len();
        case.class(format!("additional-edited:opt-was-at-{}-of-{}:left-{}", opts.edns_pos.min(before), before, left.min(2)));
        for compressed in [false, true] {
            if !base_ok[compressed as usize] {
                continue;
            }
            let out = if compressed { ser_compressed(&pk) } else { ser_plain(&pk) }.map_err(|f| Fail::new("c09:build-failed", f.msg))?;
            let what = format!("{} output after the additional section went from {} to {} records (OPT received at position {})", if compressed { "compressed" } else { "plain" }, before, left, opts.edns_pos.min(before));
            let w = walk(&out).map_err(|e| Fail::new("c09:unwalkable", format!("{} does not walk: {:?}; {}", what, e, hex(&out[..out.len().min(60)]))))?;
            let n = w.records.iter().filter(|r| r.rtype == 41 && r.section == 2).count();
            ensure!(n == 1, "c09:opt-count", "{}: {} OPT records written", what, n);
            ensure!(w.counts[3] as usize == left + 1, "c09:opt-not-counted", "{}: ARCOUNT {} for {} records and the OPT", what, w.counts[3], left);
            ensure!(w.end == out.len(), "c09:opt-count", "{}: entries end at {} of {} octets", what, w.end, out.len());
        }
    }
    Ok(())
}

pub fn def() -> CheckDef {
    CheckDef {
        id: "C09",
        rule: "proptest. Build side: named rcode (BADVERS included) x EDNS (udp 0..65535, version 0..255, option lists with any code / 0..600 bytes) x 0..3 other additional records x 0..2 answer and 0..2 authority records x optional question x flag subsets, plain and compressed; an independent walker checks: exactly one TYPE 41 record, in the additional section, counted once in ARCOUNT, owner = single root octet, CLASS = udp size, TTL octets = [rcode>>4, version, 0, 0], RDATA = concatenated (code,len,value), header nibble = rcode&15, and the reference decoder reads the model back. Parse side: reference-encoded messages with the OPT record at any index of the additional section, arbitrary DO/Z bits, named and unnamed 12-bit response codes, foreign compression; oracle: opt() = (udp, version, options in order), no TYPE 41 left in additional_records, others in order, rcode() = the named variant for named values (Reserved otherwise). Modify: a parsed EDNS message whose OPT (whole, or member by member) and response code are replaced through opt_mut / rcode_mut and written again shows exactly the new udp size, version, options and 12-bit code on the wire. Non-trivial = options non-empty or extended rcode != 0 or other additional records present",
        assumptions: vec!["OPT TTL layout transcribed from RFC 6891 section 6.1.3", "unnamed response codes are only required to show as Reserved"],
        sections: vec![
            Box::new(PropSection { name: "build", rule: "EDNS on the wire", strategy: build_strategy, cases: (200_000, 2_000_000), check: check_build }),
            Box::new(PropSection { name: "parse", rule: "EDNS from the wire", strategy: parse_strategy, cases: (200_000, 2_000_000), check: check_parse }),
            Box::new(PropSection { name: "modify", rule: "EDNS members replaced after parsing", strategy: modify_strategy, cases: (80_000, 800_000), check: check_modify }),
        ],
    }
}

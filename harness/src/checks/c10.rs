//! C10 — each record type's RDATA layout and type code follow its RFC
use super::util::*;
use crate::bridge::*;
use crate::driver::CheckDef;
use crate::ensure;
use crate::gen;
use crate::refmodel::*;
use crate::runner::*;
use proptest::collection::vec;
use proptest::prelude::*;
use proptest::sample::select;

fn mnemonic(code: u16) -> &'static str {
    type_info(code).map(|t| t.mnemonic).unwrap_or("?")
}

/// (record, compression choices, trailing record?)
pub type ParseIn = (ARecord, Vec<u8>, bool);

pub fn parse_strategy(_t: Tier) -> BoxedStrategy<ParseIn> {
    (
        select(gen::record_codes()).prop_flat_map(|c| gen::arecord_with(gen::typed(c))),
        vec(any::<u8>(), 0..6),
        any::<bool>(),
    )
        .boxed()
}

fn trailing() -> ARecord {
    ARecord {
        name: AName::from_strs(&["t", "example"]),
        class: 1,
        cache_flush: false,
        ttl: 1,
        rdata: ARData::Typed { code: 1, fields: vec![Val::U32(0x7f000001)] },
    }
}

pub fn check_parse(input: &ParseIn, case: &mut Case) -> Result<(), Fail> {
    let (rec, choices, trail) = input;
    let code = rec.rdata.code();
    case.nontrivial = true;
    case.class(format!("type:{}", mnemonic(code)));
    let mut p = APacket { id: 1, flags: 0x8400, ..Default::default() };
    // a question sharing the owner name gives the foreign compressor something to point at
    p.questions.push(AQuestion { name: rec.name.clone(), qtype: 255, qclass: 1, unicast: false });
    p.answers.push(rec.clone());
    if *trail {
        p.answers.push(trailing());
    }
    let opts = if choices.is_empty() { EncOpts::plain() } else { EncOpts::foreign(choices.clone()) };
    if !choices.is_empty() {
        case.class("foreign-compression");
    }
    let wire = encode_message(&p, &opts);
    // harness self-check: the reference decoder must invert the reference encoder
    match decode_message(&wire) {
        Ok((back, _)) if back == p => {}
        other => return Err(Fail::new("harness:refmodel", format!("reference decoder does not invert the encoder: {:?}", other.map(|x| x.0)))),
    }
    let pk = parse(&wire)?.map_err(|e| Fail::new(format!("c10:rejected:{}", mnemonic(code)), format!("canonical {} encoding rejected: {:?}; wire {}", mnemonic(code), e, hex(&wire))))?;
    ensure!(pk.answers.len() == p.answers.len(), "c10:parse-count", "answers: {} vs {}", pk.answers.len(), p.answers.len());
    let tc = u16::from(pk.answers[0].rdata.type_code());
    ensure!(tc == code, format!("c10:type-code:{}", mnemonic(code)), "parsed variant reports type {} for wire type {}", tc, code);
    let o = lib("observe", || observe_record(&pk.answers[0]))?;
    // the RDATA field values (owner, class, TTL and cache-flush bit of the entry are other statements' subject)
    ensure!(o.rdata == rec.rdata, format!("c10:parse-values:{}", mnemonic(code)), "{} parsed as {:?}, expected {:?}", mnemonic(code), o.rdata, rec.rdata);
    if *trail {
        let o2 = lib("observe", || observe_record(&pk.answers[1]))?;
        ensure!(o2 == trailing(), "c10:parse-trailing", "record after a {} record parsed as {:?}", mnemonic(code), o2);
    }
    // conversions of the address-like types give the octets in wire order
    if let ARData::Typed { fields, .. } = &rec.rdata {
        match (&pk.answers[0].rdata, fields.first()) {
            (simple_dns::rdata::RData::EUI48(e), Some(Val::Bytes(b))) => {
                let a: [u8; 6] = lib("<[u8; 6]>::from(EUI48)", || e.clone().into())?;
                ensure!(a[..] == b.0[..], "c10:conversion:EUI48", "EUI48 {} converts to {}", hex(&b.0), hex(&a));
            }
            (simple_dns::rdata::RData::EUI64(e), Some(Val::Bytes(b))) => {
                let a: [u8; 8] = lib("<[u8; 8]>::from(EUI64)", || e.clone().into())?;
                ensure!(a[..] == b.0[..], "c10:conversion:EUI64", "EUI64 {} converts to {}", hex(&b.0), hex(&a));
            }
            (simple_dns::rdata::RData::A(x), Some(Val::U32(v))) => {
                let back = lib("A::from(Ipv4Addr)", || simple_dns::rdata::A::from(std::net::Ipv4Addr::from(x.address)))?;
                ensure!(back.address == *v, "c10:conversion:A", "A {:#010x} through Ipv4Addr gives {:#010x}", v, back.address);
            }
            (simple_dns::rdata::RData::AAAA(x), Some(Val::Bytes(b))) => {
                let back = lib("AAAA::from(Ipv6Addr)", || simple_dns::rdata::AAAA::from(std::net::Ipv6Addr::from(x.address)))?;
                ensure!(back.address.to_be_bytes()[..] == b.0[..], "c10:conversion:AAAA", "AAAA {} through Ipv6Addr gives {:#034x}", hex(&b.0), back.address);
            }
            _ => {}
        }
    }
    Ok(())
}

fn check_build(input: &ARecord, case: &mut Case) -> Result<(), Fail> {
    let rec = input;
    let code = rec.rdata.code();
    case.nontrivial = true;
    case.class(format!("type:{}", mnemonic(code)));
    // SVCB / HTTPS values are reached through setters: in every other case each parameter is set to a placeholder
    // first and then replaced (documented: "the previous entry will be replaced"), which must leave the same value
    let history = (code == 64 || code == 65) && rec.ttl % 2 == 1;
    let route = crate::bridge::build_variant(if history { 8 } else { 0 });
    let rr = lib("build_record", || build_record(rec))?.map_err(|e| Fail::new("harness:build", e))?;
    drop(route);
    if history {
        case.class("svcb-parameters-replaced");
    }
    let mut pk = simple_dns::Packet::new_reply(1);
    pk.answers.push(rr);
    let out = lib("build_bytes_vec", || pk.build_bytes_vec())?.map_err(|e| Fail::new("c10:build-failed", format!("{:?}", e)))?;
    let w = walk(&out).map_err(|e| Fail::new(format!("c10:build-framing:{}", mnemonic(code)), format!("output does not walk: {:?}: {}", e, hex(&out))))?;
    ensure!(w.records.len() == 1 && w.end == out.len(), format!("c10:build-framing:{}", mnemonic(code)), "walker found {} records, end {} of {}", w.records.len(), w.end, out.len());
    let r = &w.records[0];
    ensure!(r.rtype == code, format!("c10:build-type:{}", mnemonic(code)), "TYPE field {} for {}", r.rtype, mnemonic(code));
    let mut want = Vec::new();
    let mut table = NameTable::new(Policy::Plain);
    if let ARData::Typed { fields, .. } = &rec.rdata {
        schema_encode(code, fields, &mut want, &mut table, &|_| false).map_err(|e| Fail::new("harness:schema", format!("{:?}", e)))?;
    }
    let got = &out[r.rdata_off..r.end];
    ensure!(got == &want[..], format!("c10:build-bytes:{}", mnemonic(code)), "{} RDATA {} expected {}", mnemonic(code), hex(got), hex(&want));
    // (TYPE, RDLENGTH and RDATA are what the statement fixes; header, owner, class and TTL bytes are compared by C02 / C04)
    ensure!(r.rdlen == want.len(), format!("c10:build-bytes:{}", mnemonic(code)), "{} RDLENGTH {} for {} RDATA octets", mnemonic(code), r.rdlen, want.len());
    let p = APacket { id: 1, flags: 0x8000, answers: vec![rec.clone()], ..Default::default() };
    // the same encoding reaches a writer that accepts only a few bytes per call (plain and compressing entry points)
    let chunk = 1 + (rec.ttl as usize % 19);
    let mut w = super::c04::ChunkedWriter { inner: std::io::Cursor::new(Vec::new()), chunk };
    lib("write_to", || pk.write_to(&mut w))?.map_err(|e| Fail::new("c10:build-failed", format!("{:?}", e)))?;
    ensure!(w.inner.get_ref()[..] == out[..], format!("c10:build-bytes-short-writes:{}", mnemonic(code)), "{}: a writer accepting {} bytes per call receives {} expected {}", mnemonic(code), chunk, hex(w.inner.get_ref()), hex(&out));
    let mut w = super::c04::ChunkedWriter { inner: std::io::Cursor::new(Vec::new()), chunk };
    lib("write_compressed_to", || pk.write_compressed_to(&mut w))?.map_err(|e| Fail::new("c10:build-failed", format!("{:?}", e)))?;
    let wc = walk(w.inner.get_ref()).map_err(|e| Fail::new(format!("c10:build-framing:{}", mnemonic(code)), format!("compressed output through a short-write writer does not walk: {:?}", e)))?;
    ensure!(wc.records.len() == 1 && wc.end == w.inner.get_ref().len(), format!("c10:build-framing:{}", mnemonic(code)), "compressed output through a short-write writer is mis-framed");
    // the compressing entry point keeps the layout: embedded names of types whose RFC forbids compression stay
    // in full, and the reference decoder reads the same field values back
    let cbytes = w.inner.get_ref();
    if let Err(f) = super::c07::check_pointers(cbytes, &mut Case::default()) {
        if f.sig == "c07:compressed-forbidden" {
            return Err(Fail::new(format!("c10:build-compressed-layout:{}", mnemonic(code)), format!("{} in {}", f.msg, hex(cbytes))));
        }
    }
    match decode_message(cbytes) {
        Ok((back, _)) => {
            ensure!(back.answers.len() == 1 && back.answers[0].rdata == rec.rdata, format!("c10:build-compressed-values:{}", mnemonic(code)), "the compressed output {} decodes differently: {}", hex(cbytes), diff(&back, &p));
        }
        Err(e) => return Err(Fail::new(format!("c10:build-compressed-values:{}", mnemonic(code)), format!("the reference decoder rejects the compressed output {}: {:?}", hex(cbytes), e))),
    }
    Ok(())
}

fn build_strategy(_t: Tier) -> BoxedStrategy<ARecord> {
    select(gen::record_codes()).prop_flat_map(|c| gen::arecord_with(gen::typed(c))).boxed()
}

// ---- structural rules

#[derive(Debug, Clone, PartialEq, Eq, Hash, serde::Serialize, serde::Deserialize)]
pub enum Rule {
    /// LOC with the given version
    LocVersion(u8),
    /// SVCB/HTTPS with the given key sequence
    SvcKeys(bool, Vec<u16>),
    /// NSEC with the given window sequence
    NsecWindows(Vec<u8>),
    /// character string whose length octet overruns the RDATA by `d` (type selector, payload, d)
    CharStrOverrun(u8, Bytes, u8),
    SvcParamOverrun(Bytes, u16),
    OptOptionOverrun(Bytes, u16),
    NsecBitmapOverrun(Bytes, u8),
    /// mutate one byte of a valid typed RDATA; the reference decoder decides what must happen
    Mutate(ARecord, u16, u8),
}

fn rule_strategy(_t: Tier) -> BoxedStrategy<Rule> {
    prop_oneof![
        2 => gen::u8b().prop_map(Rule::LocVersion),
        3 => (any::<bool>(), vec(prop_oneof![0u16..8, gen::u16b()], 0..5)).prop_map(|(h, k)| Rule::SvcKeys(h, k)),
        3 => vec(prop_oneof![0u8..6, gen::u8b()], 0..5).prop_map(Rule::NsecWindows),
        2 => (0u8..6, gen::bytes(40), 1u8..=255).prop_map(|(t, b, d)| Rule::CharStrOverrun(t, b, d)),
        2 => (gen::bytes(40), 1u16..=400).prop_map(|(b, d)| Rule::SvcParamOverrun(b, d)),
        2 => (gen::bytes(40), 1u16..=400).prop_map(|(b, d)| Rule::OptOptionOverrun(b, d)),
        2 => (gen::bytes(32), 1u8..=200).prop_map(|(b, d)| Rule::NsecBitmapOverrun(b, d)),
        8 => (build_strategy(Tier::Quick), any::<u16>(), any::<u8>()).prop_map(|(r, i, v)| Rule::Mutate(r, i, v)),
    ]
    .boxed()
}

/// message: header, one answer (root owner, class IN) with the given type and raw RDATA, then a
/// valid A record, so that bytes exist beyond the first record's frame
fn raw_message(code: u16, rdata: &[u8]) -> Vec<u8> {
    let mut m = vec![0, 1, 0x80, 0, 0, 0, 0, 2, 0, 0, 0, 0];
    m.push(0);
    m.extend_from_slice(&code.to_be_bytes());
    m.extend_from_slice(&[0, 1, 0, 0, 0, 60]);
    m.extend_from_slice(&(rdata.len() as u16).to_be_bytes());
    m.extend_from_slice(rdata);
    // trailing A record, owner "t"
    m.extend_from_slice(&[1, b't', 0, 0, 1, 0, 1, 0, 0, 0, 1, 0, 4, 127, 0, 0, 1]);
    m
}

fn check_rule(rule: &Rule, case: &mut Case) -> Result<(), Fail> {
    case.nontrivial = true;
    let (code, rdata, label): (u16, Vec<u8>, &str) = match rule {
        Rule::LocVersion(v) => {
            let mut r = vec![*v, 0x12, 0x16, 0x13];
            r.extend_from_slice(&[0x80, 0, 0, 1, 0x80, 0, 0, 2, 0, 0x98, 0x96, 0x80]);
            (29, r, "loc-version")
        }
        Rule::SvcKeys(https, keys) => {
            let mut r = vec![0, 1, 0];
            for k in keys {
                r.extend_from_slice(&k.to_be_bytes());
                r.extend_from_slice(&[0, 1, 7]);
            }
            (if *https { 65 } else { 64 }, r, "svc-keys")
        }
        Rule::NsecWindows(ws) => {
            let mut r = vec![0];
            for w in ws {
                r.extend_from_slice(&[*w, 1, 0x40]);
            }
            (47, r, "nsec-windows")
        }
        Rule::CharStrOverrun(t, b, d) => {
            let over = (b.len() + *d as usize).min(255) as u8;
            if over as usize == b.len() {
                case.excluded.push("charstr already maximal");
                return Ok(());
            }
            match t % 6 {
                0 => (16, [vec![over], b.0.clone()].concat(), "charstr-overrun:TXT"),
                1 => (13, [vec![1, b'c', over], b.0.clone()].concat(), "charstr-overrun:HINFO"),
                2 => (20, [vec![over], b.0.clone()].concat(), "charstr-overrun:ISDN"),
                3 => (35, [vec![0, 1, 0, 2, 0, 0, over], b.0.clone()].concat(), "charstr-overrun:NAPTR"),
                4 => (257, [vec![0, over], b.0.clone()].concat(), "charstr-overrun:CAA"),
                _ => (16, [vec![1, b'x', over], b.0.clone()].concat(), "charstr-overrun:TXT2"),
            }
        }
        Rule::SvcParamOverrun(b, d) => {
            let n = (b.len() + *d as usize) as u16;
            (64, [vec![0, 1, 0, 0, 1], n.to_be_bytes().to_vec(), b.0.clone()].concat(), "svcparam-overrun")
        }
        Rule::OptOptionOverrun(b, d) => {
            let n = (b.len() + *d as usize) as u16;
            (41, [vec![0, 10], n.to_be_bytes().to_vec(), b.0.clone()].concat(), "opt-option-overrun")
        }
        Rule::NsecBitmapOverrun(b, d) => {
            let n = (b.len() + *d as usize).min(255) as u8;
            if n as usize == b.len() {
                case.excluded.push("bitmap already maximal");
                return Ok(());
            }
            (47, [vec![0, 0, n], b.0.clone()].concat(), "nsec-bitmap-overrun")
        }
        Rule::Mutate(rec, idx, val) => {
            let code = rec.rdata.code();
            let mut r = Vec::new();
            let mut table = NameTable::new(Policy::Plain);
            if let ARData::Typed { fields, .. } = &rec.rdata {
                schema_encode(code, fields, &mut r, &mut table, &|_| false).map_err(|e| Fail::new("harness:schema", format!("{:?}", e)))?;
            }
            if r.is_empty() {
                return Ok(());
            }
            let i = gen::pick(*idx, r.len());
            r[i] = *val;
            (code, r, "mutate")
        }
    };
    case.class(label);
    let msg = raw_message(code, &rdata);
    // what the reference decoder says about the first record
    let w = walk(&msg).map_err(|e| Fail::new("harness:walk", format!("{:?}", e)))?;
    let verdict = decode_record(&msg, &w.records[0]);
    let got = parse(&msg)?;
    match verdict {
        // an embedded name that breaks a name rule (reserved label type, length limits, bad pointer) is C06's subject
        Err(DecErr::Name(_)) => {
            case.class(format!("{}:embedded-name-rule:no-claim", label));
        }
        Err(DecErr::Overrun) | Err(DecErr::Rule(_)) => {
            case.class(format!("{}:must-reject", label));
            if let Ok(p) = &got {
                let shown = if code == 41 { format!("{:?}", observe(p).edns) } else { format!("{:?}", p.answers.first().map(observe_record)) };
                return Err(Fail::new(
                    format!("c10:accepts-broken:{}", label.split(':').next().unwrap()),
                    format!("{} RDATA {} breaks a structural rule ({:?}) but was accepted as {}", mnemonic(code), hex(&rdata), verdict.err().unwrap(), shown),
                ));
            }
        }
        Err(DecErr::Shape) => return Err(Fail::new("harness:schema", "shape")),
        Ok((want, Fill::Exact)) => {
            // a mutation can turn a length octet into a pointer: forward pointers and long chains may be refused (no claim, as in C06)
            if got.is_err() && is_typed(code) {
                if let Ok((_, _, names)) = schema_decode(code, &msg, w.records[0].rdata_off, w.records[0].end) {
                    if names.iter().any(|n| !n.dec.all_backward || n.dec.hops > 32) {
                        case.class(format!("{}:refused-forward-pointer", label));
                        return Ok(());
                    }
                }
            }
            case.class(format!("{}:must-accept", label));
            let p = got.map_err(|e| Fail::new(format!("c10:rejects-valid:{}", label.split(':').next().unwrap()), format!("{} RDATA {} is well-formed but rejected: {:?}", mnemonic(code), hex(&rdata), e)))?;
            if code == 41 {
                // OPT in the answer section: a stray OPT record
            }
            ensure!(p.answers.len() == 2, "c10:parse-count", "expected 2 answers, got {}", p.answers.len());
            let o = lib("observe", || observe_record(&p.answers[0]))?;
            ensure!(o.rdata == want.rdata, format!("c10:parse-values:{}", mnemonic(code)), "{} RDATA {} parsed as {:?}, expected {:?}", mnemonic(code), hex(&rdata), o.rdata, want.rdata);
        }
        Ok((_, Fill::Surplus(_))) => {
            // typed content shorter than its frame: C05 decides (reject or ignore surplus)
            case.class(format!("{}:surplus", label));
        }
    }
    Ok(())
}

// ---- anchors: externally produced sample files

fn sample_dir() -> std::path::PathBuf {
    let repo = std::env::var("VERIF_REPO").unwrap_or_else(|_| "/repo".into());
    std::path::PathBuf::from(repo).join("simple-dns/samples/zonefile")
}

fn enum_samples(_t: Tier, shard: usize, n: usize, f: &mut dyn FnMut((String, Bytes)) -> bool) {
    let mut files: Vec<_> = match std::fs::read_dir(sample_dir()) {
        Ok(rd) => rd.filter_map(|e| e.ok()).map(|e| e.path()).collect(),
        Err(_) => return,
    };
    files.sort();
    for (i, p) in files.iter().enumerate() {
        let name = p.file_name().unwrap().to_string_lossy().to_string();
        if name == "sample.txt" || !mine(i, shard, n) {
            continue;
        }
        if let Ok(b) = std::fs::read(p) {
            if !f((name, Bytes(b))) {
                return;
            }
        }
    }
}

fn check_sample(input: &(String, Bytes), case: &mut Case) -> Result<(), Fail> {
    let (name, body) = input;
    case.nontrivial = true;
    // the files hold bare records: count them with the walker by trying increasing counts
    let mut msg = Vec::new();
    let mut count = 0u16;
    for n in 1..=64u16 {
        let mut m = vec![0, 1, 0x80, 0, 0, 0];
        m.extend_from_slice(&n.to_be_bytes());
        m.extend_from_slice(&[0, 0, 0, 0]);
        m.extend_from_slice(body);
        match walk(&m) {
            Ok(w) if w.end == m.len() => {
                msg = m;
                count = n;
                break;
            }
            _ => {}
        }
    }
    if count == 0 {
        return Err(Fail::new("harness:sample", format!("{}: cannot frame the sample as records", name)));
    }
    // names in these files are relative to the file start: shift is 12, and dnspython wrote them uncompressed
    let (want, fills) = decode_message(&msg).map_err(|e| Fail::new("harness:sample", format!("{}: reference decoder fails on an externally produced sample: {:?}", name, e)))?;
    if fills.iter().any(|f| *f != Fill::Exact) {
        return Err(Fail::new("harness:sample", format!("{}: reference decoder leaves surplus bytes on an externally produced sample", name)));
    }
    case.class(format!("file:{}", name));
    let p = parse(&msg)?.map_err(|e| Fail::new("c10:sample-rejected", format!("{}: {:?}", name, e)))?;
    let o = lib("observe", || observe(&p))?;
    ensure!(o == want, "c10:sample-mismatch", "{}: {}", name, diff(&want, &o));
    Ok(())
}

pub fn def() -> CheckDef {
    CheckDef {
        id: "C10",
        rule: "proptest per type over an independent declarative schema (RFC transcriptions in refmodel/schema.rs): (a) reference encoding (plain or foreign-compressed) -> Packet::parse -> field values; (b) library value -> build_bytes_vec -> TYPE and RDATA bytes equal the reference encoding byte for byte; (c) structural rules: LOC version, SVCB key order, NSEC window order, inner lengths overrunning RDLENGTH, plus single-byte mutations judged by the reference decoder (must-reject / must-accept with equal values); (d) the dnspython-made sample files decode identically. Non-trivial = every case; distinct by hash of the input",
        assumptions: vec![
            "the schema (Appendix A of DESIGN.md) is my transcription of the RFCs; it is cross-checked against the dnspython samples at every run (harness:sample errors abort with exit 2)",
            "ISDN without sub-address is not representable in the library's struct and is not generated",
            "NSAP is the fixed 20-byte layout the library documents (RFC 1706 allows other lengths)",
        ],
        sections: vec![
            Box::new(PropSection { name: "parse", rule: "reference encoding -> parse -> values", strategy: parse_strategy, cases: (200_000, 3_000_000), check: check_parse }),
            Box::new(PropSection { name: "build", rule: "values -> build -> bytes == reference", strategy: build_strategy, cases: (200_000, 3_000_000), check: check_build }),
            Box::new(PropSection { name: "txt-from-text", rule: "TXT::try_from(&str) around multiples of 254 bytes", strategy: txt_text_strategy, cases: (20_000, 200_000), check: check_txt_text }),
            Box::new(PropSection { name: "opt", rule: "OPT pseudo-record both directions", strategy: opt_strategy, cases: (50_000, 600_000), check: check_opt }),
            Box::new(PropSection { name: "rules", rule: "structural rules and byte mutations", strategy: rule_strategy, cases: (300_000, 3_000_000), check: check_rule }),
            Box::new(EnumSection { name: "samples", rule: "externally produced encodings", enumerate: enum_samples, check: check_sample, exhaustive: true }),
        ],
    }
}

// ---- TXT built from text: RFC 1035 3.3.14 says one or more character-strings; the text constructor must emit them exactly

fn txt_text_strategy(_t: Tier) -> BoxedStrategy<(u16, u8)> {
    (prop_oneof![4 => (0u16..7, -2i16..=2).prop_map(|(k, d)| ((k * 254) as i32 + d as i32).max(0) as u16), 1 => 0u16..2000], any::<u8>()).boxed()
}

fn check_txt_text(input: &(u16, u8), case: &mut Case) -> Result<(), Fail> {
    use simple_dns::rdata::{RData, TXT};
    use std::convert::TryFrom;
    let (len, c) = *input;
    let text: String = std::iter::repeat((b'a' + c % 26) as char).take(len as usize).collect();
    case.nontrivial = len >= 254;
    case.class("type:TXT");
    let txt = lib("TXT::try_from(&str)", || TXT::try_from(text.as_str()))?.map_err(|e| Fail::new("c10:build-failed", format!("TXT::try_from(&str of {} bytes): {:?}", len, e)))?;
    let tr = trailing();
    let mut pk = simple_dns::Packet::new_reply(1);
    pk.answers.push(simple_dns::ResourceRecord::new(simple_dns::Name::new_unchecked("t.example"), simple_dns::CLASS::IN, 9, RData::TXT(txt)));
    pk.answers.push(build_record(&tr).map_err(|e| Fail::new("harness:build", e))?);
    // the reference: character-strings of the pieces the constructor made (what matters is that the bytes on the
    // wire are exactly <len><bytes> per piece, their concatenation is the text, and RDLENGTH counts them all)
    for compressed in [false, true] {
        let out = if compressed { lib("build_bytes_vec_compressed", || pk.build_bytes_vec_compressed())? } else { lib("build_bytes_vec", || pk.build_bytes_vec())? };
        let out = out.map_err(|e| Fail::new("c10:build-failed", format!("{:?}", e)))?;
        let w = walk(&out).map_err(|e| Fail::new("c10:build-framing:TXT", format!("text of {} bytes (compressed={}): output does not walk: {:?}", len, compressed, e)))?;
        ensure!(w.records.len() == 2 && w.end == out.len(), "c10:build-framing:TXT", "text of {} bytes (compressed={}): mis-framed", len, compressed);
        let r = &w.records[0];
        let (rec, fill) = decode_record(&out, r).map_err(|e| Fail::new("c10:build-framing:TXT", format!("text of {} bytes: {:?}", len, e)))?;
        ensure!(fill == Fill::Exact, "c10:build-framing:TXT", "text of {} bytes: RDLENGTH {} does not match the character-strings written", len, r.rdlen);
        if let ARData::Typed { fields, .. } = &rec.rdata {
            if let Val::Strs(v) = &fields[0] {
                let joined: Vec<u8> = v.iter().flat_map(|b| b.0.clone()).collect();
                ensure!(joined == text.as_bytes() || (len == 0 && joined.is_empty()), "c10:build-bytes:TXT", "text of {} bytes: the character-strings concatenate to {} bytes", len, joined.len());
            }
        }
        let (t2, _) = decode_record(&out, &w.records[1]).map_err(|e| Fail::new("c10:build-framing:TXT", format!("{:?}", e)))?;
        ensure!(t2 == trailing(), "c10:parse-trailing", "the record after the TXT record is damaged");
    }
    Ok(())
}

// ---- OPT: carried by the packet's EDNS data, laid out per RFC 6891

/// (edns, named rcode, another additional record?)
type OptIn = (AEdns, u16, bool);

fn opt_strategy(_t: Tier) -> BoxedStrategy<OptIn> {
    (gen::aedns(), select(NAMED_RCODES.to_vec()), any::<bool>()).boxed()
}

fn check_opt(input: &OptIn, case: &mut Case) -> Result<(), Fail> {
    let (edns, rcode, other) = input;
    case.nontrivial = true;
    case.class("type:OPT");
    let mut p = APacket { id: 3, flags: 0x8000, rcode: *rcode, edns: Some(edns.clone()), ..Default::default() };
    if *other {
        p.additionals.push(trailing());
    }
    let refwire = encode_message(&p, &EncOpts::plain());
    // parse direction
    let pk = parse(&refwire)?.map_err(|e| Fail::new("c10:rejected:OPT", format!("canonical OPT encoding rejected: {:?}; wire {}", e, hex(&refwire))))?;
    let o = lib("observe", || observe(&pk))?;
    ensure!(o == p, "c10:parse-values:OPT", "OPT parsed differently: {}", diff(&p, &o));
    // build direction
    let built = lib("build", || build(&p))?.map_err(|e| Fail::new("harness:build", e))?;
    let out = lib("build_bytes_vec", || built.build_bytes_vec())?.map_err(|e| Fail::new("c10:build-failed", format!("{:?}", e)))?;
    // compare the OPT record itself (owner, TYPE, CLASS, TTL, RDLENGTH, RDATA); its position among the
    // additional records is not part of the statement
    let find = |m: &[u8]| -> Result<Vec<u8>, Fail> {
        let w = walk(m).map_err(|e| Fail::new("c10:build-framing:OPT", format!("{:?}: {}", e, hex(m))))?;
        let r = w.records.iter().find(|r| r.rtype == 41).ok_or_else(|| Fail::new("c10:build-bytes:OPT", format!("no OPT record in {}", hex(m))))?;
        Ok(m[r.off..r.end].to_vec())
    };
    let (got, want) = (find(&out)?, find(&refwire)?);
    ensure!(got == want, "c10:build-bytes:OPT", "OPT record {} expected {}", hex(&got), hex(&want));
    // (header flag bits are C08's; the counts say that the OPT record is there once)
    ensure!(out.len() == refwire.len() && out[4..12] == refwire[4..12], "c10:build-message:OPT", "message {} expected {}", hex(&out), hex(&refwire));
    Ok(())
}

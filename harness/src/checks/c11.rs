//! C11 — received packets survive re-serialisation
use super::util::*;
use crate::bridge::*;
use crate::driver::CheckDef;
use crate::ensure;
use crate::gen;
use crate::refmodel::*;
use crate::runner::*;
use proptest::collection::vec;
use proptest::prelude::*;

/// the oracle on one byte string: only parser-accepted inputs make a claim
pub fn reserialise_oracle(b: &[u8], case: &mut Case) -> Result<bool, Fail> {
    let Some(p1) = parse_if_accepted(b, case) else { return Ok(false) };
    case.class("accepted");
    let o1 = lib("observe", || observe(&p1))?;
    // the writer-based entry points serialise too: for a quarter of the accepted inputs they write into a pre-filled
    // growable cursor at a non-zero origin, through a writer accepting one byte per call, and into a fixed slice with
    // room to spare; each must succeed and its bytes must parse back to the same observation
    if b.len() % 4 == 0 && b.len() < 4096 {
        case.class("writers-exercised");
        let k = 1 + b.len() % 5;
        let room = 2 * b.len() + 600 * (1 + o1.questions.len() + o1.answers.len() + o1.authorities.len() + o1.additionals.len());
        for compressed in [false, true] {
            let tag = if compressed { "write_compressed_to" } else { "write_to" };
            let mut outs: Vec<(&str, Vec<u8>)> = Vec::new();
            {
                let mut cur = std::io::Cursor::new(vec![0xEEu8; k + room]);
                cur.set_position(k as u64);
                let r = if compressed { lib(tag, || p1.write_compressed_to(&mut cur))? } else { lib(tag, || p1.write_to(&mut cur))? };
                r.map_err(|e| Fail::new("c11:writer-failed", format!("{} into a pre-filled cursor at offset {} failed on a parsed packet: {:?}; input {}", tag, k, e, hex(&b[..b.len().min(120)]))))?;
                let end = cur.position() as usize;
                let v = cur.into_inner();
                outs.push(("a pre-filled cursor at a non-zero origin", v[k.min(end)..end].to_vec()));
            }
            {
                let mut w = super::c04::ChunkedWriter { inner: std::io::Cursor::new(Vec::new()), chunk: 1 };
                let r = if compressed { lib(tag, || p1.write_compressed_to(&mut w))? } else { lib(tag, || p1.write_to(&mut w))? };
                r.map_err(|e| Fail::new("c11:writer-failed", format!("{} through a writer accepting one byte per call failed on a parsed packet: {:?}; input {}", tag, e, hex(&b[..b.len().min(120)]))))?;
                outs.push(("a writer accepting one byte per call", w.inner.into_inner()));
            }
            {
                let mut storage = vec![0u8; room];
                let mut cur = std::io::Cursor::new(&mut storage[..]);
                let r = if compressed { lib(tag, || p1.write_compressed_to(&mut cur))? } else { lib(tag, || p1.write_to(&mut cur))? };
                if r.is_ok() {
                    let end = cur.position() as usize;
                    outs.push(("a fixed slice with room to spare", storage[..end].to_vec()));
                } else {
                    case.class("fixed-slice-too-small:no-claim");
                }
            }
            for (how, bytes) in outs {
                if bytes.len() > 65535 && matches!(parse(&bytes), Ok(Err(_))) {
                    // the packet does not fit a DNS message in this form: refusing the over-long output makes no claim
                    case.class("output-longer-than-a-dns-message-and-refused:no-claim");
                    continue;
                }
                let p2 = parse(&bytes)?.map_err(|e| Fail::new("c11:writer-reparse-failed", format!("what {} wrote into {} is rejected: {:?}; input {}", tag, how, e, hex(&b[..b.len().min(120)]))))?;
                let o2 = lib("observe", || observe(&p2))?;
                ensure!(o2 == o1, "c11:writer-differs", "after parse -> {} into {} -> parse: {}; input {}", tag, how, diff(&o1, &o2), hex(&b[..b.len().min(160)]));
            }
        }
    }
    // A serialisation that failed earlier on this thread (another packet into a slice that is too short, cut inside
    // the RDATA of its record) must leave nothing behind that shows in the next one.
    if b.len() % 4 == 1 {
        case.class("after-a-failed-write");
        let _ = lib("failed write first", || {
            use simple_dns::rdata::{RData, TXT};
            let mut other = simple_dns::Packet::new_reply(7);
            let mut t = TXT::new();
            let _ = t.add_string("poison=left-behind-by-a-failed-write");
            other.answers.push(simple_dns::ResourceRecord::new(simple_dns::Name::new_unchecked("x.y"), simple_dns::CLASS::IN, 1, RData::TXT(t)));
            for cut in [30usize, 35, 45] {
                let mut small = vec![0u8; cut];
                let _ = other.write_to(&mut &mut small[..]);
                let mut cur = std::io::Cursor::new(&mut small[..]);
                let _ = other.write_compressed_to(&mut cur);
            }
        })?;
    }
    // (each form twice: a received packet that has been written once is written the same way again)
    for compressed in [false, true, false, true] {
        let what = if compressed { "build_bytes_vec_compressed" } else { "build_bytes_vec" };
        let out = if compressed { lib(what, || p1.build_bytes_vec_compressed())? } else { lib(what, || p1.build_bytes_vec())? };
        let out = out.map_err(|e| Fail::new("c11:rebuild-failed", format!("{} failed on a parsed packet: {:?}; input {}", what, e, hex(&b[..b.len().min(120)]))))?;
        if out.len() > 65535 && matches!(parse(&out), Ok(Err(_))) {
            case.class("output-longer-than-a-dns-message-and-refused:no-claim");
            continue;
        }
        let p2 = parse(&out)?.map_err(|e| {
            Fail::new(
                if compressed { "c11:reparse-failed-compressed" } else { "c11:reparse-failed" },
                format!("output of {} is rejected: {:?}; input {} output {}", what, e, hex(&b[..b.len().min(120)]), hex(&out[..out.len().min(120)])),
            )
        })?;
        let o2 = lib("observe", || observe(&p2))?;
        if o2 != o1 {
            let d = diff(&o1, &o2);
            // the one class recorded as a known finding is keyed precisely
            let sig = if d.starts_with("rcode") && o1.rcode == RCODE_RESERVED && o1.edns.is_none() {
                "c11:rcode-nibble-11..15-without-opt".to_string()
            } else if d.starts_with("rcode") {
                "c11:rcode-changed".to_string()
            } else if d.starts_with("opcode") {
                "c11:opcode-changed".to_string()
            } else if compressed {
                "c11:differs-compressed".to_string()
            } else {
                "c11:differs".to_string()
            };
            return Err(Fail::new(sig, format!("after parse -> {} -> parse: {}; input {}", what, d, hex(&b[..b.len().min(160)]))));
        }
    }
    Ok(true)
}

/// (packet incl. unnamed codes, stray OPT records (section, scaled index, udp/class, ttl, options), choices, OPT position, extra header bits)
pub type In = (APacket, Vec<(u8, u16, u16, u32, Vec<(u16, Bytes)>)>, Vec<u8>, u8, u16);

pub fn strategy_pub(t: Tier) -> BoxedStrategy<In> {
    strategy(t)
}

fn strategy(t: Tier) -> BoxedStrategy<In> {
    (
        gen::apacket(t.pick(3, 5)),
        prop_oneof![3 => 0u8..16, 1 => Just(0u8)],
        prop_oneof![2 => Just(0u16), 1 => 0u16..4096],
        vec((0u8..3, any::<u16>(), gen::u16b(), gen::u32b(), vec((gen::u16b(), gen::tail()), 0..3)), 0..3),
        vec(any::<u8>(), 0..6),
        0u8..4,
        prop_oneof![3 => (0u16..4).prop_map(|b| b & 0), 2 => any::<u16>()],
    )
        .prop_map(|(mut p, opcode, rcode, strays, choices, pos, bits)| {
            // received messages may carry any opcode / response code
            if opcode != 0 {
                p.opcode = opcode;
            }
            if rcode != 0 {
                p.rcode = if p.edns.is_some() { rcode } else { rcode & 15 };
            }
            (p, strays, choices, pos, bits)
        })
        .boxed()
}

pub fn render(input: &In) -> Vec<u8> {
    let (p, strays, choices, pos, _bits) = input;
    let mut p = p.clone();
    for (sec, idx, class, ttl, options) in strays {
        let rec = ARecord {
            name: AName(vec![]),
            class: *class,
            cache_flush: false,
            ttl: *ttl,
            rdata: ARData::Typed { code: 41, fields: vec![Val::Pairs(options.clone())] },
        };
        let v = match sec {
            0 => &mut p.answers,
            1 => &mut p.authorities,
            _ => &mut p.additionals,
        };
        let at = gen::pick(*idx, v.len() + 1);
        v.insert(at, rec);
    }
    // (a) a second OPT record that equals the first except for the flag bits of its TTL
    if _bits & 1 == 1 {
        if let Some(e) = &p.edns {
            let twin = ARecord {
                name: AName(vec![]),
                class: e.udp,
                cache_flush: false,
                ttl: (((p.rcode >> 4) as u32) << 24) | ((e.version as u32) << 16) | (*_bits as u32 & 0xfffe),
                rdata: ARData::Typed { code: 41, fields: vec![Val::Pairs(e.options.clone())] },
            };
            let at = gen::pick(*_bits, p.additionals.len() + 1);
            p.additionals.insert(at, twin);
        }
    }
    // (b) NSEC windows that are not in increasing order (malformed: a parser may refuse them; if it accepts
    // them, re-serialisation must still show what it showed)
    if _bits & 2 == 2 {
        for r in p.answers.iter_mut().chain(p.authorities.iter_mut()).chain(p.additionals.iter_mut()) {
            if let ARData::Typed { code: 47, fields } = &mut r.rdata {
                if let Val::Windows(w) = &mut fields[1] {
                    if w.len() >= 3 {
                        let n = w.len();
                        w.swap(n - 1, n - 2);
                    } else if w.len() == 2 {
                        w.swap(0, 1);
                    }
                }
            }
        }
    }
    let p = gen::fit(p);
    let mut opts = if choices.is_empty() { EncOpts::plain() } else { EncOpts::foreign(choices.clone()) };
    opts.edns_pos = *pos as usize;
    // a stray OPT placed in the additional section while no EDNS is modelled becomes the EDNS record
    // of the message on the wire; that is fine: the oracle only compares the library with itself
    encode_message(&p, &opts)
}

fn check(input: &In, case: &mut Case) -> Result<(), Fail> {
    let m = render(input);
    if !input.1.is_empty() {
        case.class("stray-opt");
    }
    if !input.2.is_empty() {
        case.class("foreign-compression");
    }
    if !NAMED_RCODES.contains(&input.0.rcode) {
        case.class("unnamed-rcode");
    }
    if !NAMED_OPCODES.contains(&input.0.opcode) {
        case.class("unnamed-opcode");
    }
    let accepted = reserialise_oracle(&m, case)?;
    case.nontrivial = accepted && input.0.n_entries() + input.1.len() >= 1;
    Ok(())
}

fn enum_words(_t: Tier, shard: usize, n: usize, f: &mut dyn FnMut(u16) -> bool) {
    for w in 0..=65535u16 {
        if mine(w as usize, shard, n) && !f(w) {
            return;
        }
    }
}

fn check_word(word: &u16, case: &mut Case) -> Result<(), Fail> {
    let mut p = APacket { id: 0x0102, ..Default::default() };
    let n = AName::from_strs(&["www", "example", "com"]);
    p.questions.push(AQuestion { name: n.clone(), qtype: 1, qclass: 1, unicast: false });
    p.answers.push(ARecord { name: n, class: 1, cache_flush: false, ttl: 60, rdata: default_typed(15) });
    let mut m = encode_message(&p, &EncOpts::compressed());
    m[2..4].copy_from_slice(&word.to_be_bytes());
    let accepted = reserialise_oracle(&m, case)?;
    case.nontrivial = accepted;
    Ok(())
}

fn check_mutated(input: &super::c01::Mutated, case: &mut Case) -> Result<(), Fail> {
    let m = super::c01::render_mutated(input);
    let accepted = reserialise_oracle(&m, case)?;
    case.nontrivial = accepted && input.0.n_entries() >= 1 && !input.2.is_empty();
    Ok(())
}

pub fn def() -> CheckDef {
    CheckDef {
        id: "C11",
        rule: "parser-accepted byte strings from: (1) reference encodings of packets with arbitrary (foreign) compression, unknown types, empty RDATA, any 4-bit opcode, any response code (12-bit with EDNS), OPT at any additional index, stray OPT records in any section (also twice, also a twin of the EDNS record differing only in its TTL flag bits), NSEC records with windows out of order (accepted or not); (1b) suffix-sharing messages with filler that puts names beyond offset 16383; (1c) 200..700 records whose owner (and NS target) is a pointer to one 64..255-byte name: 5 KB messages whose plain form reaches 360 KB; (1d) names of 250..=258 wire octets as question, owner and RDATA name, in full and through a pointer (what is accepted must survive); (2) all 65536 header words on a valid compressed message; (3) the accepted part of mutated encodings. Oracle: parse -> build_bytes_vec / build_bytes_vec_compressed succeeds -> parse succeeds -> every observable field equal; for a quarter of the accepted inputs the writer-based entry points (pre-filled cursor at a non-zero origin, one-byte-per-call writer, fixed slice) must succeed and their bytes must parse back to the same observation (id, flags, opcode(), rcode(), EDNS, sections, every record field). Non-trivial = accepted by the parser and >= 1 entry (mutated: >= 1 mutation)",
        assumptions: vec!["observation = public accessors + byte hooks; opcode()/rcode() compared as the caller sees them (unnamed values show as Reserved)"],
        sections: vec![
            Box::new(ReplayOnly { name: "fuzz-bytes", check: check_raw }),
            Box::new(PropSection { name: "reference", rule: "reference encodings, foreign layouts", strategy, cases: (300_000, 4_000_000), check }),
            Box::new(PropSection { name: "large", rule: "suffix-sharing messages crossing 16 KiB", strategy: large_strategy, cases: (60_000, 600_000), check: check_large }),
            Box::new(EnumSection { name: "expanding", rule: "small compressed messages whose plain form exceeds 64 KiB", enumerate: enum_expanding, check: check_expanding, exhaustive: true }),
            Box::new(EnumSection { name: "name-boundary", rule: "names of 250..=258 wire octets in every position", enumerate: enum_name_boundary, check: check_name_boundary, exhaustive: true }),
            Box::new(EnumSection { name: "words", rule: "all header words", enumerate: enum_words, check: check_word, exhaustive: true }),
            Box::new(PropSection { name: "mutated", rule: "accepted mutated encodings", strategy: super::c01::mutated_strategy, cases: (300_000, 4_000_000), check: check_mutated }),
        ],
    }
}

/// small received messages that expand past 64 KiB once their names are written in full: N records whose owner is a
/// pointer to one long name. (records, wire length of the shared name, compress RDATA names too?)
fn enum_expanding(_t: Tier, shard: usize, n: usize, f: &mut dyn FnMut((u16, u8, bool)) -> bool) {
    let mut i = 0;
    for count in [200u16, 248, 260, 300, 400, 700] {
        for name_len in [255u8, 251, 200, 128, 64] {
            for ns in [false, true] {
                i += 1;
                if mine(i, shard, n) && !f((count, name_len, ns)) {
                    return;
                }
            }
        }
    }
}

fn check_expanding(input: &(u16, u8, bool), case: &mut Case) -> Result<(), Fail> {
    let (count, name_len, ns) = *input;
    // labels of 31 bytes until the wire length is reached
    let mut labels: Vec<Bytes> = Vec::new();
    let mut wire = 1usize;
    while wire + 32 <= name_len as usize {
        labels.push(Bytes(vec![b'a' + (labels.len() % 26) as u8; 31]));
        wire += 32;
    }
    let rem = name_len as usize - wire;
    if rem >= 2 {
        labels.push(Bytes(vec![b'z'; rem - 1]));
    }
    let owner = AName(labels);
    let mut p = APacket { id: 0x1111, flags: 0x8400, ..Default::default() };
    for k in 0..count {
        let rdata = if ns { ARData::Typed { code: 2, fields: vec![Val::Name(owner.clone())] } } else { ARData::Typed { code: 1, fields: vec![Val::U32(k as u32)] } };
        p.answers.push(ARecord { name: owner.clone(), class: 1, cache_flush: false, ttl: k as u32, rdata });
    }
    let m = encode_message(&p, &EncOpts::compressed());
    let plain_size = 12 + count as usize * (owner.wire_len() + 10 + if ns { owner.wire_len() } else { 4 });
    case.class(if plain_size > 65535 { "expands-past-64k" } else { "expands-below-64k" });
    let accepted = reserialise_oracle(&m, case)?;
    let _ = (accepted, name_len); // a refusal makes no claim: the statement is about what the parser accepts
    case.nontrivial = true;
    Ok(())
}

/// messages holding a name of 250..=258 wire octets (5 label sizes) as question name, owner name and RDATA name,
/// written in full and continued through a pointer: whatever the parser accepts must survive re-serialisation
fn enum_name_boundary(_t: Tier, shard: usize, n: usize, f: &mut dyn FnMut((u16, u8, u8)) -> bool) {
    let mut i = 0;
    for wire in 250u16..=258 {
        for lab in [63u8, 62, 40, 9, 1] {
            for place in 0..4u8 {
                i += 1;
                if mine(i, shard, n) && !f((wire, lab, place)) {
                    return;
                }
            }
        }
    }
}

fn check_name_boundary(input: &(u16, u8, u8), case: &mut Case) -> Result<(), Fail> {
    let (wire_len, lab, place) = *input;
    let mut labels: Vec<Bytes> = Vec::new();
    let mut wire = 1usize;
    while wire + lab as usize + 1 <= wire_len as usize {
        labels.push(Bytes(vec![b'a' + (labels.len() % 26) as u8; lab as usize]));
        wire += lab as usize + 1;
    }
    let rem = wire_len as usize - wire;
    if rem >= 2 {
        labels.push(Bytes(vec![b'z'; rem - 1]));
    }
    let long = AName(labels);
    let short = AName::from_strs(&["s", "example"]);
    let mut p = APacket { id: 0x2222, flags: 0x8400, ..Default::default() };
    match place {
        0 => p.questions.push(AQuestion { name: long.clone(), qtype: 1, qclass: 1, unicast: false }),
        1 => p.answers.push(ARecord { name: long.clone(), class: 1, cache_flush: false, ttl: 1, rdata: ARData::Typed { code: 1, fields: vec![Val::U32(1)] } }),
        2 => p.answers.push(ARecord { name: short.clone(), class: 1, cache_flush: false, ttl: 1, rdata: ARData::Typed { code: 5, fields: vec![Val::Name(long.clone())] } }),
        _ => {
            // the long name is reached through a pointer: its tail is the question name
            let mut tail = long.clone();
            tail.0.remove(0);
            p.questions.push(AQuestion { name: tail, qtype: 1, qclass: 1, unicast: false });
            p.answers.push(ARecord { name: long.clone(), class: 1, cache_flush: false, ttl: 1, rdata: ARData::Typed { code: 1, fields: vec![Val::U32(1)] } });
        }
    }
    p.answers.push(ARecord { name: short, class: 1, cache_flush: false, ttl: 2, rdata: ARData::Typed { code: 1, fields: vec![Val::U32(2)] } });
    let m = encode_message(&p, &if place == 3 { EncOpts::compressed() } else { EncOpts::plain() });
    let accepted = reserialise_oracle(&m, case)?;
    case.class(if accepted { "accepted" } else { "rejected" });
    case.nontrivial = true;
    let _ = long;
    Ok(())
}

fn check_raw(b: &Bytes, case: &mut Case) -> Result<(), Fail> {
    reserialise_oracle(b, case).map(|_| ())
}

/// large received messages (names beyond offset 16383) re-serialised
fn check_large(input: &(gen::Sharing, Vec<u8>), case: &mut Case) -> Result<(), Fail> {
    let p = input.0.assemble();
    let opts = if input.1.is_empty() { EncOpts::plain() } else { EncOpts::foreign(input.1.clone()) };
    let m = encode_message(&p, &opts);
    if m.len() > 16384 {
        case.class("over-16k");
    }
    let accepted = reserialise_oracle(&m, case)?;
    case.nontrivial = accepted && m.len() > 16384;
    Ok(())
}

fn large_strategy(t: Tier) -> BoxedStrategy<(gen::Sharing, Vec<u8>)> {
    (gen::sharing(t), vec(any::<u8>(), 0..4)).boxed()
}

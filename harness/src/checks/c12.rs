//! C12 — inspecting parsed data never panics
use super::util::*;
use crate::bridge::*;
use crate::driver::CheckDef;
use crate::refmodel::*;
use crate::runner::*;
use proptest::prelude::*;
use simple_dns::rdata::RData;
use simple_dns::{CharacterString, Label, Name, Packet, Question, ResourceRecord, QCLASS, QTYPE, TYPE};
use std::collections::hash_map::DefaultHasher;
use std::convert::TryFrom;
use std::hash::{Hash, Hasher};

fn hash_of<T: Hash>(t: &T) -> u64 {
    let mut h = DefaultHasher::new();
    t.hash(&mut h);
    h.finish()
}

/// every formatter option a caller can put into a format string: width, precision, alignment, fill, alternate;
/// widths and precisions around the character count and the byte count of the plain rendering
fn fmt_variants<T: std::fmt::Display + std::fmt::Debug>(what: &'static str, t: &T, plain: &str, full: bool) -> Result<(), Fail> {
    let chars = plain.chars().count();
    let bytes = plain.len();
    let mut sizes = if full { vec![0usize, chars.saturating_sub(1), chars + 1, bytes.saturating_sub(1), bytes + 1, 40] } else { vec![chars + 1, bytes.saturating_sub(1)] };
    sizes.sort();
    sizes.dedup();
    for w in &sizes {
        let w = *w;
        let out = lib(what, || (format!("{:w$}", t), format!("{:>w$}", t), format!("{:*^w$}", t), format!("{:<w$.w$}", t)))?;
        // padding never loses text: the plain rendering is contained in the padded one
        let _ = out.0.contains(plain) && out.1.contains(plain) && out.2.contains(plain); // observed only: C12 claims the absence of panics, not these results
        if full {
            lib(what, || (format!("{:w$?}", t), format!("{:#w$?}", t), format!("{:>w$.w$?}", t), format!("{:.w$}", t)))?;
        }
    }
    if full {
        lib(what, || (format!("{:#}", t), format!("{:#?}", t), format!("{:08}", t), format!("{:+}", t)))?;
    }
    Ok(())
}

fn inspect_label(l: &Label, hostile: &mut bool) -> Result<(), Fail> {
    let bytes = l.verif_bytes().to_vec();
    if bytes.iter().any(|b| !(0x20..0x7f).contains(b)) {
        *hostile = true;
    }
    let shown = lib("Label::to_string", || l.to_string())?;
    lib("Label::fmt(Debug)", || format!("{:?}", l))?;
    fmt_variants("Label::fmt with width / precision / alignment", l, &shown, false)?;
    if let Ok(s) = std::str::from_utf8(&bytes) {
        let _ = shown == s; // observed only: C12 claims the absence of panics, not these results
    }
    let c = lib("Label::clone", || l.clone())?;
    let _ = lib("Label::eq", || c == *l)?; // observed only: C12 claims the absence of panics, not these results
    let o = lib("Label::into_owned", || l.clone().into_owned())?;
    let _ = lib("Label::eq", || o == *l)?; // observed only: C12 claims the absence of panics, not these results
    lib("Label::hash", || hash_of(l))?;
    lib("Label::len", || (l.len(), l.is_empty()))?;
    Ok(())
}

fn inspect_name(n: &Name, others: &[&Name], hostile: &mut bool) -> Result<(), Fail> {
    for l in n.get_labels() {
        inspect_label(l, hostile)?;
    }
    let shown = lib("Name::to_string", || n.to_string())?;
    lib("Name::fmt(Debug)", || format!("{:?}", n))?;
    fmt_variants("Name::fmt with width / precision / alignment", n, &shown, true)?;
    let labels: Vec<Vec<u8>> = n.get_labels().iter().map(|l| l.verif_bytes().to_vec()).collect();
    if labels.iter().all(|l| std::str::from_utf8(l).is_ok()) {
        let want = labels.iter().map(|l| String::from_utf8(l.clone()).unwrap()).collect::<Vec<_>>().join(".");
        let _ = shown == want; // observed only: C12 claims the absence of panics, not these results
    }
    lib("Name::is_link_local", || n.is_link_local())?;
    lib("Name::iter", || n.iter().count())?;
    lib("Name::hash", || hash_of(n))?;
    let c = lib("Name::clone", || n.clone())?;
    let _ = lib("Name::eq", || c == *n)?; // observed only: C12 claims the absence of panics, not these results
    let o = lib("Name::into_owned", || n.clone().into_owned())?;
    let _ = lib("Name::eq", || o == *n)?; // observed only: C12 claims the absence of panics, not these results
    for other in others.iter().take(6) {
        lib("Name::is_subdomain_of", || n.is_subdomain_of(other))?;
        lib("Name::without", || n.without(other).map(|x| x.get_labels().len()))?;
        lib("Name::eq", || n == *other)?;
    }
    Ok(())
}

fn inspect_cs(c: &CharacterString, hostile: &mut bool) -> Result<(), Fail> {
    let bytes = c.verif_bytes().to_vec();
    if bytes.iter().any(|b| !(0x20..0x7f).contains(b)) || bytes.is_empty() || bytes.len() == 255 {
        *hostile = true;
    }
    let shown = lib("CharacterString::to_string", || c.to_string())?;
    lib("CharacterString::fmt(Debug)", || format!("{:?}", c))?;
    fmt_variants("CharacterString::fmt with width / precision / alignment", c, &shown, true)?;
    if let Ok(s) = std::str::from_utf8(&bytes) {
        let _ = shown == s; // observed only: C12 claims the absence of panics, not these results
    }
    let r = lib("String::try_from(CharacterString)", || String::try_from(c.clone()))?;
    let _ = r.is_ok() == std::str::from_utf8(&bytes).is_ok(); // observed only: C12 claims the absence of panics, not these results
    let cl = lib("CharacterString::clone", || c.clone())?;
    let _ = lib("CharacterString::eq", || cl == *c)?; // observed only: C12 claims the absence of panics, not these results
    lib("CharacterString::into_owned", || c.clone().into_owned())?;
    lib("CharacterString::hash", || hash_of(c))?;
    Ok(())
}

fn names_of<'a, 'b>(rd: &'b RData<'a>) -> Vec<&'b Name<'a>> {
    match rd {
        RData::NS(x) => vec![&x.0],
        RData::MD(x) => vec![&x.0],
        RData::MF(x) => vec![&x.0],
        RData::CNAME(x) => vec![&x.0],
        RData::MB(x) => vec![&x.0],
        RData::MG(x) => vec![&x.0],
        RData::MR(x) => vec![&x.0],
        RData::PTR(x) => vec![&x.0],
        RData::NSAP_PTR(x) => vec![&x.0],
        RData::SOA(s) => vec![&s.mname, &s.rname],
        RData::MINFO(m) => vec![&m.rmailbox, &m.emailbox],
        RData::MX(m) => vec![&m.exchange],
        RData::RP(r) => vec![&r.mbox, &r.txt],
        RData::AFSDB(a) => vec![&a.hostname],
        RData::RouteThrough(r) => vec![&r.intermediate_host],
        RData::SRV(s) => vec![&s.target],
        RData::NAPTR(n) => vec![&n.replacement],
        RData::KX(k) => vec![&k.exchanger],
        RData::RRSIG(r) => vec![&r.signer_name],
        RData::NSEC(n) => vec![&n.next_name],
        RData::SVCB(s) => vec![&s.target],
        RData::HTTPS(h) => vec![&h.0.target],
        RData::IPSECKEY(k) => match &k.gateway {
            simple_dns::rdata::Gateway::Domain(d) => vec![d],
            _ => vec![],
        },
        _ => vec![],
    }
}

fn strings_of<'a, 'b>(rd: &'b RData<'a>) -> Vec<&'b CharacterString<'a>> {
    match rd {
        RData::HINFO(h) => vec![&h.cpu, &h.os],
        RData::ISDN(i) => vec![&i.address, &i.sa],
        RData::NAPTR(n) => vec![&n.flags, &n.services, &n.regexp],
        RData::CAA(c) => vec![&c.tag],
        RData::TXT(t) => t.verif_strings().iter().collect(),
        _ => vec![],
    }
}

const QTYPES: [QTYPE; 8] = [QTYPE::ANY, QTYPE::IXFR, QTYPE::AXFR, QTYPE::MAILB, QTYPE::MAILA, QTYPE::TYPE(TYPE::A), QTYPE::TYPE(TYPE::TXT), QTYPE::TYPE(TYPE::Unknown(999))];

fn inspect_record(r: &ResourceRecord, questions: &[Question], all_names: &[&Name], hostile: &mut bool) -> Result<(), Fail> {
    lib("ResourceRecord::fmt(Debug)", || (format!("{:?}", r), format!("{:#?}", r), format!("{:30.10?}", r)))?;
    let c = lib("ResourceRecord::clone", || r.clone())?;
    let _ = lib("ResourceRecord::eq", || c == *r)?; // observed only: C12 claims the absence of panics, not these results
    let o = lib("ResourceRecord::into_owned", || r.clone().into_owned())?;
    let _ = lib("ResourceRecord::eq", || o == *r)?; // observed only: C12 claims the absence of panics, not these results
    let _ = lib("ResourceRecord::hash", || hash_of(r) == hash_of(&o))?; // observed only: C12 claims the absence of panics, not these results
    lib("ResourceRecord::to_cache_flush_record", || r.to_cache_flush_record().cache_flush)?;
    lib("RData::fmt(Debug)", || format!("{:?}", r.rdata))?;
    lib("RData::type_code", || r.rdata.type_code())?;
    lib("RData::hash", || hash_of(&r.rdata))?;
    let rc = lib("RData::clone", || r.rdata.clone())?;
    let _ = lib("RData::eq", || rc == r.rdata)?; // observed only: C12 claims the absence of panics, not these results
    lib("RData::into_owned", || r.rdata.clone().into_owned())?;
    inspect_name(&r.name, all_names, hostile)?;
    for n in names_of(&r.rdata) {
        inspect_name(n, all_names, hostile)?;
    }
    for s in strings_of(&r.rdata) {
        inspect_cs(s, hostile)?;
    }
    for q in questions {
        lib("match_qtype", || r.match_qtype(q.qtype))?;
        lib("match_qclass", || r.match_qclass(q.qclass))?;
    }
    for q in QTYPES {
        lib("match_qtype", || r.match_qtype(q))?;
    }
    for q in [QCLASS::ANY, QCLASS::CLASS(simple_dns::CLASS::IN), QCLASS::CLASS(simple_dns::CLASS::NONE)] {
        lib("match_qclass", || r.match_qclass(q))?;
    }
    match &r.rdata {
        RData::TXT(t) => {
            let attrs = lib("TXT::attributes", || t.attributes())?;
            lib("TXT::attributes(Debug)", || format!("{:?}", attrs))?;
            let la = lib("TXT::long_attributes", || t.clone().long_attributes())?;
            let joined: Vec<u8> = t.verif_strings().iter().flat_map(|s| s.verif_bytes().to_vec()).collect();
            let st = lib("String::try_from(TXT)", || String::try_from(t.clone()))?;
            let _ = st.is_ok() == std::str::from_utf8(&joined).is_ok(); // observed only: C12 claims the absence of panics, not these results
            let _ = la.is_ok() == st.is_ok(); // observed only: C12 claims the absence of panics, not these results
            if let Ok(s) = st {
                let _ = s.as_bytes() == &joined[..]; // observed only: C12 claims the absence of panics, not these results
            }
            lib("TXT::into_owned", || t.clone().into_owned())?;
        }
        RData::SVCB(s) => {
            lib("SVCB::iter_params", || s.iter_params().map(|(k, v)| k as usize + v.len()).sum::<usize>())?;
            lib("SVCB::get_param", || s.get_param(1).map(|v| v.len()))?;
        }
        RData::HTTPS(h) => {
            lib("SVCB::iter_params", || h.0.iter_params().count())?;
        }
        RData::NULL(_, n) => {
            lib("NULL::get_data", || n.get_data().len())?;
        }
        _ => {}
    }
    Ok(())
}

/// apply every public observer to every part of a parsed packet
pub fn inspect(p: &Packet, hostile: &mut bool) -> Result<(), Fail> {
    lib("Packet::fmt(Debug)", || (format!("{:?}", p), format!("{:#?}", p), format!("{:60?}", p)))?;
    let c = lib("Packet::clone", || p.clone())?;
    lib("Packet::accessors", || (c.id(), c.rcode(), c.opcode(), c.opt().map(|o| o.opt_codes.len()), c.has_flags(simple_dns::PacketFlag::RESPONSE)))?;
    lib("Packet::into_reply", || p.clone().into_reply().id())?;
    if let Some(o) = p.opt() {
        lib("OPT::fmt(Debug)", || format!("{:?}", o))?;
        lib("OPT::into_owned", || o.clone().into_owned())?;
        lib("OPT::hash", || hash_of(o))?;
    }
    let mut all_names: Vec<&Name> = p.questions.iter().map(|q| &q.qname).collect();
    for r in p.answers.iter().chain(&p.name_servers).chain(&p.additional_records) {
        all_names.push(&r.name);
        all_names.extend(names_of(&r.rdata));
    }
    for q in &p.questions {
        lib("Question::fmt(Debug)", || format!("{:?}", q))?;
        lib("Question::clone", || q.clone())?;
        lib("Question::into_owned", || q.clone().into_owned())?;
        inspect_name(&q.qname, &all_names, hostile)?;
    }
    for r in p.answers.iter().chain(&p.name_servers).chain(&p.additional_records) {
        inspect_record(r, &p.questions, &all_names, hostile)?;
    }
    Ok(())
}

pub fn inspect_bytes(b: &[u8], case: &mut Case) -> Result<bool, Fail> {
    let Some(p) = parse_if_accepted(b, case) else { return Ok(false) };
    case.class("accepted");
    let mut hostile = false;
    inspect(&p, &mut hostile)?;
    // and the same on the observation bridge (exercises every accessor once more)
    lib("observe", || observe(&p))?;
    if hostile {
        case.class("hostile-bytes");
    }
    case.nontrivial = hostile;
    Ok(true)
}

fn check(input: &super::c11::In, case: &mut Case) -> Result<(), Fail> {
    let m = super::c11::render(input);
    for r in input.0.records() {
        if let ARData::Typed { code, .. } = &r.rdata {
            case.class(format!("type:{}", type_info(*code).map(|t| t.mnemonic).unwrap_or("?")));
        }
    }
    inspect_bytes(&m, case)?;
    Ok(())
}

fn check_mutated(input: &super::c01::Mutated, case: &mut Case) -> Result<(), Fail> {
    let m = super::c01::render_mutated(input);
    inspect_bytes(&m, case)?;
    Ok(())
}

/// TXT records whose text is valid UTF-8 as a whole but is cut into character-strings at arbitrary byte
/// positions (inside multi-byte characters), with non-ASCII keys, ';' and '=' in all places
type TxtIn = (Vec<u8>, Vec<u16>);

fn txt_strategy(_t: Tier) -> BoxedStrategy<TxtIn> {
    use proptest::collection::vec;
    (vec(any::<u8>(), 0..60), vec(any::<u16>(), 0..5)).boxed()
}

fn check_txt(input: &TxtIn, case: &mut Case) -> Result<(), Fail> {
    let pool = ['a', 'k', 'v', '=', ';', 'é', '漢', '😀', '\u{13b}', ' ', 'É'];
    let text: String = input.0.iter().map(|b| pool[*b as usize % pool.len()]).collect();
    let bytes = text.as_bytes();
    let mut cuts: Vec<usize> = input.1.iter().map(|c| crate::gen::pick(*c, bytes.len() + 1)).collect();
    cuts.push(0);
    cuts.push(bytes.len());
    cuts.sort();
    cuts.dedup();
    let mut strs = Vec::new();
    for w in cuts.windows(2) {
        for chunk in bytes[w[0]..w[1]].chunks(255) {
            strs.push(Bytes(chunk.to_vec()));
        }
    }
    if strs.is_empty() {
        strs.push(Bytes(vec![]));
    }
    if strs.iter().any(|s| std::str::from_utf8(s).is_err()) {
        case.class("piece-invalid-utf8-whole-valid");
    }
    let rec = ARecord { name: AName::from_strs(&["t", "local"]), class: 1, cache_flush: false, ttl: 1, rdata: ARData::Typed { code: 16, fields: vec![Val::Strs(strs)] } };
    let m = encode_message(&packet_with_answer(rec), &EncOpts::plain());
    let accepted = inspect_bytes(&m, case)?;
    if !accepted {
        case.class("txt-rejected:no-claim");
    }
    case.nontrivial = text.chars().any(|c| !c.is_ascii());
    Ok(())
}

pub fn def() -> CheckDef {
    CheckDef {
        id: "C12",
        rule: "parser-accepted inputs (reference encodings as in C11 whose labels, character strings and TXT strings are biased to invalid UTF-8, NUL, '.', '\\\\', '=', ';', empty and maximal lengths; plus accepted mutated encodings, plus TXT records whose text is valid UTF-8 as a whole but is cut into character-strings inside multi-byte characters, with non-ASCII keys and ';' / '=' anywhere); every public observer is applied to the packet and to every question, record, name, label, character string and RDATA under panic capture: Debug, Display/to_string, clone, into_owned, ==, Hash, is_link_local, iter, is_subdomain_of/without against the other names of the packet, match_qtype/match_qclass against the packet's questions and all special QTYPE/QCLASS values, TXT attributes / long_attributes / String::try_from, SVCB params, NULL data; Display and Debug also with every formatter option (width, precision, alignment, fill, alternate) around the character and byte counts of the rendering. The verdict is the absence of panics only: what the observers return (rendered text, equality of copies, Ok / Err of conversions) is computed but not asserted here (C16, C17 and C19 own those results). Non-trivial = accepted and at least one name or string with a byte outside printable ASCII (or empty/maximal)",
        assumptions: vec!["WireFormat::len is crate-private and not an observer"],
        sections: vec![
            Box::new(ReplayOnly { name: "fuzz-bytes", check: check_raw }),
            Box::new(PropSection { name: "observers", rule: "reference encodings with hostile bytes", strategy: super::c11::strategy_pub, cases: (140_000, 2_000_000), check }),
            Box::new(PropSection { name: "txt-text", rule: "UTF-8 text cut into strings at arbitrary byte positions", strategy: txt_strategy, cases: (100_000, 1_000_000), check: check_txt }),
            Box::new(PropSection { name: "mutated", rule: "accepted mutated encodings", strategy: super::c01::mutated_strategy, cases: (140_000, 2_000_000), check: check_mutated }),
        ],
    }
}

fn check_raw(b: &Bytes, case: &mut Case) -> Result<(), Fail> {
    inspect_bytes(b, case).map(|_| ())
}

//! C13 — mDNS replies contain exactly the matching records
use super::util::*;
use crate::bridge::*;
use crate::driver::CheckDef;
use crate::ensure;
use crate::gen;
use crate::refmodel::*;
use crate::runner::*;
use proptest::collection::vec;
use proptest::prelude::*;
use proptest::sample::select;
use simple_dns::{Packet, ResourceRecord};
use simple_mdns::verif::{build_reply, ResourceRecordManager};

#[derive(Debug, Clone, PartialEq, Eq, Hash, serde::Serialize, serde::Deserialize)]
pub enum Op {
    AddAuth(ARecord),
    AddCached(ARecord),
    Remove(ARecord),
    Clear,
}

#[derive(Debug, Clone, PartialEq, Eq, Hash, serde::Serialize, serde::Deserialize)]
pub struct Hist {
    pub ops: Vec<Op>,
    pub questions: Vec<AQuestion>,
    pub id: u16,
}

#[derive(Debug, Clone, Copy, PartialEq, Eq)]
pub enum Kind {
    Auth,
    Cached,
    /// received both registrations without a removal in between: either behaviour is accepted
    Ambiguous,
}

/// the library's record identity: owner, class and rdata (TTL and cache-flush do not take part)
pub type Key = (AName, u16, ARData);

pub fn key_of(r: &ARecord) -> Key {
    (r.name.clone(), r.class, r.rdata.clone())
}

#[derive(Default)]
pub struct Model {
    pub recs: Vec<(Key, Kind)>,
    /// the (TTL, cache-flush) values each key was added with since it last was certainly absent
    variants: Vec<(Key, Vec<(u32, bool)>)>,
}

impl Model {
    pub fn apply(&mut self, op: &Op) {
        match op {
            Op::AddAuth(r) => self.add(r, Kind::Auth),
            Op::AddCached(r) => self.add(r, Kind::Cached),
            Op::Remove(r) => {
                let k = key_of(r);
                // Removing a record certainly removes what was added with the very same TTL and cache-flush bit. The
                // statement does not say whether a record that differs from the argument in those two members is
                // "the same record" for removal: it may then stay or go (answered or not, both accepted).
                let same_members = self.variants.iter().find(|(x, _)| *x == k).map(|(_, v)| v.iter().all(|m| *m == (r.ttl, r.cache_flush))).unwrap_or(true);
                if same_members {
                    self.recs.retain(|(x, _)| *x != k);
                    self.variants.retain(|(x, _)| *x != k);
                } else if let Some(e) = self.recs.iter_mut().find(|(x, _)| *x == k) {
                    // (a record that was only learned from the network stays "not to be answered" either way)
                    if e.1 == Kind::Auth {
                        e.1 = Kind::Ambiguous;
                    }
                }
            }
            Op::Clear => {
                self.recs.clear();
                self.variants.clear();
            }
        }
    }
    fn add(&mut self, r: &ARecord, kind: Kind) {
        let k = key_of(r);
        match self.variants.iter_mut().find(|(x, _)| *x == k) {
            Some((_, v)) => v.push((r.ttl, r.cache_flush)),
            None => self.variants.push((k.clone(), vec![(r.ttl, r.cache_flush)])),
        }
        if let Some(e) = self.recs.iter_mut().find(|(x, _)| *x == k) {
            // registering locally makes (or keeps) the record authoritative; receiving an equal record from
            // the network never demotes a locally registered one (C20: "disappear only when removed or cleared")
            if kind == Kind::Auth {
                e.1 = Kind::Auth;
            }
        } else {
            self.recs.push((k, kind));
        }
    }
}

pub fn is_subdomain(x: &AName, of: &AName) -> bool {
    x.0.len() > of.0.len() && x.0[x.0.len() - of.0.len()..] == of.0[..]
}

/// the matching predicate of the statement (C18): None = the statement is silent (MAILA/AXFR/IXFR)
pub fn type_matches(rtype: u16, qtype: u16) -> Option<bool> {
    match qtype {
        255 => Some(true),
        253 => Some([7, 8, 9].contains(&rtype)),
        251 | 252 | 254 => None,
        q => Some(q == rtype),
    }
}

pub fn class_matches(class: u16, qclass: u16) -> bool {
    qclass == 255 || qclass == class
}

pub fn apply_to_store(store: &mut ResourceRecordManager<'static>, op: &Op) -> Result<(), Fail> {
    let own = |r: &ARecord| -> Result<ResourceRecord<'static>, Fail> { Ok(build_record(r).map_err(|e| Fail::new("harness:build", e))?.into_owned()) };
    match op {
        Op::AddAuth(r) => {
            let rr = own(r)?;
            lib("add_authoritative_resource", || store.add_authoritative_resource(rr))
        }
        Op::AddCached(r) => {
            let rr = own(r)?;
            lib("add_cached_resource", || store.add_cached_resource(rr))
        }
        Op::Remove(r) => {
            let rr = own(r)?;
            lib("remove_resource_record", || store.remove_resource_record(&rr))
        }
        Op::Clear => lib("clear", || store.clear()),
    }
}

pub fn query_packet<'a>(h: &'a Hist) -> Result<Packet<'a>, Fail> {
    let mut q = Packet::new_query(h.id);
    for x in &h.questions {
        q.questions.push(build_question(x).map_err(|e| Fail::new("harness:build", e))?);
    }
    Ok(q)
}

fn check(h: &Hist, case: &mut Case) -> Result<(), Fail> {
    let mut store = ResourceRecordManager::new();
    let mut model = Model::default();
    // "every set of registered records and every query": the statement holds at every point of a history, and a
    // query must not leave anything behind that changes a later answer. In every other history the same query is
    // therefore also put after each operation (the verdict against the model as it stands at that point), the
    // final verdict comes last as before.
    let probe_between = h.id % 2 == 0 && h.ops.len() >= 2;
    for (i, op) in h.ops.iter().enumerate() {
        apply_to_store(&mut store, op)?;
        model.apply(op);
        if probe_between && i + 1 < h.ops.len() {
            let mut scratch = Case::default();
            verdict(h, &store, &model, &mut scratch).map_err(|f| Fail::new(f.sig, format!("asked after operation #{} of {}: {}", i + 1, h.ops.len(), f.msg)))?;
            case.extra_evals += 1;
        }
    }
    if probe_between {
        case.class("probed-between-operations");
    }
    verdict(h, &store, &model, case)
}

fn verdict(h: &Hist, store: &ResourceRecordManager<'static>, model: &Model, case: &mut Case) -> Result<(), Fail> {
    // non-trivial: a question name shares a concatenation or a byte prefix with a different registered name
    let cat = |n: &AName| -> Vec<u8> { n.0.iter().rev().flat_map(|l| l.0.clone()).collect() };
    case.nontrivial = !model.recs.is_empty()
        && h.questions.iter().any(|q| {
            let qc = cat(&q.name);
            model.recs.iter().any(|((owner, _, _), _)| *owner != q.name && !is_subdomain(owner, &q.name) && cat(owner).starts_with(&qc))
        });
    if case.nontrivial {
        case.class("colliding-names");
    }

    // the bounds
    let mut upper: Vec<&Key> = Vec::new();
    let mut lower: Vec<&Key> = Vec::new();
    for q in &h.questions {
        for (k, kind) in &model.recs {
            if *kind == Kind::Cached {
                continue;
            }
            let (owner, class, rdata) = k;
            let name_exact = *owner == q.name;
            let name_ok = name_exact || is_subdomain(owner, &q.name);
            if !name_ok || !class_matches(*class, q.qclass) {
                continue;
            }
            match type_matches(rdata.code(), q.qtype) {
                Some(false) => {}
                Some(true) => {
                    upper.push(k);
                    if name_exact && *kind == Kind::Auth {
                        lower.push(k);
                    }
                }
                None => upper.push(k),
            }
        }
    }
    let query = query_packet(h)?;
    let reply = lib("build_reply", || build_reply(query, store).map(|(p, u)| (observe(&p), u)))?;
    match &reply {
        None => {
            case.class("no-reply");
            if let Some(k) = lower.first() {
                return Err(Fail::new("c13:missing-reply", format!("no reply although {:?} is registered as authoritative and matches a question", k)));
            }
        }
        Some((rp, unicast)) => {
            case.class("reply");
            ensure!(!upper.is_empty(), "c13:spurious-reply", "a reply with answers {:?} was produced although nothing matches", rp.answers.iter().map(|a| (a.name.render(), a.rdata.code())).collect::<Vec<_>>());
            ensure!(rp.id == h.id, "c13:reply-id", "reply id {} for query id {}", rp.id, h.id);
            ensure!(rp.flags & 0x8000 != 0, "c13:reply-flag", "the response flag is not set");
            let want_unicast = h.questions.iter().any(|q| q.unicast);
            ensure!(*unicast == want_unicast, "c13:unicast", "unicast delivery = {} but the questions ask {:?}", unicast, h.questions.iter().map(|q| q.unicast).collect::<Vec<_>>());
            for a in &rp.answers {
                let k = key_of(a);
                if !upper.contains(&&k) {
                    let registered = model.recs.iter().find(|(x, _)| *x == k).map(|(_, kind)| *kind);
                    let why = match registered {
                        None => "it is not registered".to_string(),
                        Some(Kind::Cached) => "it is only a cached record".to_string(),
                        Some(_) => format!("its owner {:?} / type {} / class {} does not match any question {:?}", a.name.render(), a.rdata.code(), a.class, h.questions.iter().map(|q| (q.name.render(), q.qtype, q.qclass)).collect::<Vec<_>>()),
                    };
                    let sig = if registered.is_some() && !h.questions.iter().any(|q| q.name == a.name || is_subdomain(&a.name, &q.name)) { "c13:answer-wrong-name" } else { "c13:answer-not-matching" };
                    return Err(Fail::new(sig, format!("answer {:?} type {}: {}", a.name.render(), a.rdata.code(), why)));
                }
            }
            for k in &lower {
                ensure!(rp.answers.iter().any(|a| key_of(a) == **k), "c13:answer-missing", "registered authoritative record {:?} matches a question but is not in the reply", k);
            }
            // additional records: registered address records owned by the target of an SRV answer
            let targets: Vec<AName> = rp
                .answers
                .iter()
                .filter_map(|a| match &a.rdata {
                    ARData::Typed { code: 33, fields } => match &fields[3] {
                        Val::Name(n) => Some(n.clone()),
                        _ => None,
                    },
                    _ => None,
                })
                .collect();
            for ad in &rp.additionals {
                let k = key_of(ad);
                let kind = model.recs.iter().find(|(x, _)| *x == k).map(|(_, kind)| *kind);
                ensure!(kind.is_some(), "c13:additional-unregistered", "additional record {:?} is not registered", k);
                // "registered" is what the service registered itself (add-authoritative); what it merely learned
                // from the network (add-cached) is not its to hand out
                ensure!(kind != Some(Kind::Cached), "c13:additional-cached", "additional record {:?} was only learned from the network (add-cached), not registered", k);
                ensure!([1, 28].contains(&ad.rdata.code()), "c13:additional-type", "additional record of type {}", ad.rdata.code());
                ensure!(targets.contains(&ad.name), "c13:additional-owner", "additional record owned by {:?} but the SRV targets are {:?}", ad.name.render(), targets.iter().map(|t| t.render()).collect::<Vec<_>>());
            }
            ensure!(rp.questions.is_empty() || true, "c13:unused", "");
        }
    }
    if upper.is_empty() {
        ensure!(reply.is_none(), "c13:spurious-reply", "nothing matches but a reply was produced");
    }
    Ok(())
}

// ---- catalogue (names chosen to collide under concatenation and byte-prefixing)

fn n(s: &str) -> AName {
    AName(s.split('.').map(|l| Bytes(l.as_bytes().to_vec())).collect())
}

fn rec(owner: &str, class: u16, rdata: ARData) -> ARecord {
    ARecord { name: n(owner), class, cache_flush: false, ttl: 3600, rdata }
}

pub fn a(ip: u32) -> ARData {
    ARData::Typed { code: 1, fields: vec![Val::U32(ip)] }
}

fn srv(target: &str, port: u16) -> ARData {
    ARData::Typed { code: 33, fields: vec![Val::U16(0), Val::U16(0), Val::U16(port), Val::Name(n(target))] }
}

fn txt(s: &str) -> ARData {
    ARData::Typed { code: 16, fields: vec![Val::Strs(vec![Bytes(s.as_bytes().to_vec())])] }
}

fn txt_n(strings: &[&str]) -> ARData {
    ARData::Typed { code: 16, fields: vec![Val::Strs(strings.iter().map(|s| Bytes(s.as_bytes().to_vec())).collect())] }
}

pub fn catalogue() -> Vec<ARecord> {
    vec![
        rec("foobar", 1, a(0x0a000001)),
        rec("bar.foo", 1, a(0x0a000002)),
        rec("foo.bar", 1, txt("t")),
        rec("_my.local", 1, srv("a.b.local", 80)),
        rec("_mysrv.local", 1, srv("ba.local", 81)),
        rec("a.b.local", 1, a(0x0a000005)),
        rec("ba.local", 1, a(0x0a000006)),
        rec("ba.local", 1, ARData::Typed { code: 28, fields: vec![Val::Bytes(Bytes(vec![6; 16]))] }),
        rec("local", 1, ARData::Typed { code: 12, fields: vec![Val::Name(n("_my.local"))] }),
        rec("x._my.local", 1, txt("k=v")),
        rec("_my.local", 1, ARData::Typed { code: 7, fields: vec![Val::Name(n("foobar"))] }),
        rec("_mysrv.local", 3, a(0x0a000004)),
        rec("_my.local", 1, ARData::Typed { code: 8, fields: vec![Val::Name(n("bar.foo"))] }),
        rec("foobar", 1, ARData::Typed { code: 9, fields: vec![Val::Name(n("foo.bar"))] }),
        // the CHAOS-class twin of the first record (same owner, same rdata)
        rec("foobar", 3, a(0x0a000001)),
        // a record of class NONE (a question of class ANY selects it like any other)
        rec("bar.foo", 254, a(0x0a000009)),
        // a CNAME owned by the target of the first SRV record
        rec("a.b.local", 1, ARData::Typed { code: 5, fields: vec![Val::Name(n("ba.local"))] }),
        // two TXT records of one owner holding the same strings in a different order (different records)
        rec("foo.bar", 1, txt_n(&["a=1", "b=2"])),
        rec("foo.bar", 1, txt_n(&["b=2", "a=1"])),
    ]
}

const QNAMES: [&str; 12] = ["foobar", "bar.foo", "foo.bar", "foo", "bar", "_my.local", "_mysrv.local", "local", "b.local", "ba.local", "a.b.local", "my.local"];
const QTYPES: [u16; 11] = [1, 33, 16, 255, 253, 12, 252, 254, 8, 9, 5];
const QCLASSES: [u16; 4] = [1, 3, 255, 254];

fn all_questions() -> Vec<AQuestion> {
    let mut v = Vec::new();
    for name in QNAMES {
        for qtype in QTYPES {
            for qclass in QCLASSES {
                v.push(AQuestion { name: n(name), qtype, qclass, unicast: false });
            }
        }
    }
    v
}

fn enum_hist(t: Tier, shard: usize, nsh: usize, f: &mut dyn FnMut(Hist) -> bool) {
    let cat = catalogue();
    let maxk = t.pick(3, 4) as u32;
    let qs = all_questions();
    // second questions from a reduced list
    let q2: Vec<AQuestion> = ["foobar", "_my.local", "local", "ba.local"]
        .iter()
        .flat_map(|name| [1u16, 255].into_iter().map(move |qt| AQuestion { name: n(name), qtype: qt, qclass: 1, unicast: true }))
        .collect();
    let mut i = 0usize;
    for mask in 0u32..(1u32 << cat.len()) {
        if mask.count_ones() > maxk {
            continue;
        }
        i += 1;
        if !mine(i, shard, nsh) {
            continue;
        }
        let ops: Vec<Op> = cat.iter().enumerate().filter(|(k, _)| mask & (1 << k) != 0).map(|(_, r)| Op::AddAuth(r.clone())).collect();
        for (qi, q) in qs.iter().enumerate() {
            if !f(Hist { ops: ops.clone(), questions: vec![q.clone()], id: mask as u16 }) {
                return;
            }
            // the same store with one of its records learned from the network instead of registered
            // (questions about the owners of the chosen records, address / SRV / TXT / ANY)
            if (2..=3).contains(&mask.count_ones()) && [1, 33, 16, 255].contains(&q.qtype) && ops.iter().any(|o| matches!(o, Op::AddAuth(r) if r.name == q.name)) {
                for c in 0..ops.len() {
                    let mut with_cached = ops.clone();
                    if let Op::AddAuth(r) = &ops[c] {
                        with_cached[c] = Op::AddCached(r.clone());
                    }
                    if !f(Hist { ops: with_cached, questions: vec![q.clone()], id: mask as u16 ^ 0x0f0f }) {
                        return;
                    }
                }
            }
            // pairs: every 7th question gets each second question
            if qi % 7 == (mask as usize % 7) {
                for s in &q2 {
                    if !f(Hist { ops: ops.clone(), questions: vec![q.clone(), s.clone()], id: mask as u16 ^ 0x5555 }) {
                        return;
                    }
                    // and in the other order (the question asking for unicast delivery first)
                    if !f(Hist { ops: ops.clone(), questions: vec![s.clone(), q.clone()], id: mask as u16 ^ 0x2aaa }) {
                        return;
                    }
                }
            }
        }
    }
}

// ---- random histories

pub fn coll_name() -> BoxedStrategy<AName> {
    vec(select(vec!["a", "b", "ab", "ba", "_my", "_mysrv", "foo", "bar", "foobar", "local"]), 1..=3)
        .prop_map(|v| AName(v.into_iter().map(|s| Bytes(s.as_bytes().to_vec())).collect()))
        .boxed()
}

fn coll_rdata() -> BoxedStrategy<ARData> {
    prop_oneof![
        3 => (0u32..4).prop_map(|x| a(0x0a000000 + x)),
        1 => (0u8..3).prop_map(|x| ARData::Typed { code: 28, fields: vec![Val::Bytes(Bytes(vec![x; 16]))] }),
        3 => (coll_name(), 80u16..83).prop_map(|(t, p)| ARData::Typed { code: 33, fields: vec![Val::U16(0), Val::U16(0), Val::U16(p), Val::Name(t)] }),
        2 => select(vec!["k=v", "", "x"]).prop_map(txt),
        1 => select(vec![vec!["a=1", "b=2"], vec!["b=2", "a=1"], vec!["a=1", "a=1"], vec!["a=1"], vec!["", "a=1"]]).prop_map(|v| txt_n(&v)),
        1 => coll_name().prop_map(|t| ARData::Typed { code: 12, fields: vec![Val::Name(t)] }),
        2 => (select(vec![7u16, 8, 9]), coll_name()).prop_map(|(c, t)| ARData::Typed { code: c, fields: vec![Val::Name(t)] }),
        1 => (any::<u16>(), coll_name()).prop_map(|(p, t)| ARData::Typed { code: 15, fields: vec![Val::U16(p), Val::Name(t)] }),
        1 => Just(ARData::Unknown { code: 10, data: Bytes(vec![1, 2]) }),
        1 => Just(ARData::Unknown { code: 999, data: Bytes(vec![3]) }),
        // any other record type (CNAME, NS, HINFO, NSEC, ...), its names drawn from the colliding alphabet
        3 => select(gen::record_codes()).prop_flat_map(|c| gen::typed_n(c, coll_name())),
    ]
    .boxed()
}

pub fn coll_record() -> BoxedStrategy<ARecord> {
    (coll_name(), select(vec![1u16, 1, 1, 1, 3, 3, 2, 4, 254]), coll_rdata(), select(vec![0u32, 1, 120, 3600]), any::<bool>())
        .prop_map(|(name, class, rdata, ttl, cache_flush)| ARecord { name, class, cache_flush, ttl, rdata })
        .boxed()
}

pub fn op_strategy() -> BoxedStrategy<Op> {
    prop_oneof![
        8 => coll_record().prop_map(Op::AddAuth),
        2 => coll_record().prop_map(Op::AddCached),
        2 => coll_record().prop_map(Op::Remove),
        1 => Just(Op::Clear),
    ]
    .boxed()
}

fn hist_strategy(_t: Tier) -> BoxedStrategy<Hist> {
    let qtype = prop_oneof![4 => select(vec![1u16, 28, 33, 16, 12, 7, 15, 10, 255, 253, 254, 252, 251]), 1 => select(gen::record_codes())];
    let q = (coll_name(), qtype, select(vec![1u16, 1, 3, 255, 255, 2, 4, 254]), any::<bool>())
        .prop_map(|(name, qtype, qclass, unicast)| AQuestion { name, qtype, qclass, unicast });
    (vec(op_strategy(), 0..12), vec((q, any::<u16>()), 0..=2), any::<u16>())
        .prop_map(|(mut ops, questions, id)| {
            // half of the questions ask for a name the history mentions (an owner, or an SRV / PTR target)
            let mentioned: Vec<AName> = ops
                .iter()
                .filter_map(|o| match o {
                    Op::AddAuth(r) | Op::AddCached(r) | Op::Remove(r) => Some(r),
                    Op::Clear => None,
                })
                .flat_map(|r| {
                    let mut v = vec![r.name.clone()];
                    if let ARData::Typed { code, fields } = &r.rdata {
                        for (n, _) in embedded_names(*code, fields) {
                            v.push(n.clone());
                        }
                    }
                    v
                })
                .collect();
            let questions: Vec<AQuestion> = questions
                .into_iter()
                .map(|(mut q, pick)| {
                    if pick % 2 == 0 && !mentioned.is_empty() {
                        q.name = mentioned[gen::pick(pick, mentioned.len())].clone();
                    } else if pick % 8 == 1 {
                        // a name-like string of the sources (a service prefix the responder might special-case) in
                        // front of a suffix of a mentioned name
                        let dn = gen::dict_names();
                        let base = if mentioned.is_empty() { AName::from_strs(&["local"]) } else { mentioned[gen::pick(pick >> 3, mentioned.len())].clone() };
                        let skip = ((pick >> 6) as usize % 3).min(base.0.len().saturating_sub(1));
                        let mut labels = dn[gen::pick(pick.rotate_left(5), dn.len())].0.clone();
                        labels.extend(base.0[skip..].iter().cloned());
                        if AName(labels.clone()).is_valid() {
                            q.name = AName(labels);
                        }
                    }
                    q
                })
                .collect();
            // removals mostly target records that were added
            let added: Vec<ARecord> = ops.iter().filter_map(|o| if let Op::AddAuth(r) | Op::AddCached(r) = o { Some(r.clone()) } else { None }).collect();
            if !added.is_empty() {
                let mut k = 0;
                for o in ops.iter_mut() {
                    match o {
                        Op::Remove(r) => {
                            if k % 2 == 0 {
                                // the same record as far as identity goes (owner, class, rdata), possibly with
                                // another TTL or cache-flush bit
                                let flip = r.cache_flush;
                                let ttl = r.ttl;
                                *r = added[(r.ttl as usize + k) % added.len()].clone();
                                if k % 4 == 0 {
                                    r.cache_flush ^= flip;
                                    r.ttl = ttl;
                                }
                            }
                            k += 1;
                        }
                        // registrations of the class twin of an earlier record
                        Op::AddAuth(r) if k % 5 == 3 => {
                            let twin = added[(r.ttl as usize + k) % added.len()].clone();
                            r.name = twin.name;
                            r.rdata = twin.rdata;
                            r.class = if twin.class == 1 { 3 } else { 1 };
                            k += 1;
                        }
                        // receptions of a record that is (or was) also registered: same owner, class and rdata,
                        // its own TTL and cache-flush bit
                        Op::AddCached(r) => {
                            if k % 2 == 0 {
                                let twin = added[(r.ttl as usize + k) % added.len()].clone();
                                r.name = twin.name;
                                r.class = twin.class;
                                r.rdata = twin.rdata;
                            }
                            k += 1;
                        }
                        _ => {}
                    }
                }
            }
            Hist { ops, questions, id }
        })
        .boxed()
}

pub fn def() -> CheckDef {
    let _ = gen::pick(0, 1);
    CheckDef {
        id: "C13",
        rule: "model-based: a set-based reference store (key = owner, class, rdata; kind authoritative / cached) and an independent matcher give, for every query, a lower bound (authoritative records whose owner equals a question name and that match its type and class: must be answered) and an upper bound (authoritative records whose owner equals or is a label-wise subdomain of a question name and match: may be answered); additional records must be registered (authoritative) A/AAAA records owned by the target of an SRV answer; id, response flag, unicast = OR of the questions' bits; no reply iff nothing may be answered. (1) bounded-exhaustive: every subset of <= 3 (4 thorough) records of a 19-record catalogue (all five classes, a CNAME at an SRV target, two TXT records of one owner with the same strings in a different order), each subset of 2..3 also with one of its records added as cached instead whose names collide under concatenation and byte-prefixing (foobar / bar.foo / foo.bar, _my.local / _mysrv.local, a.b.local / ba.local) x 528 single questions (12 names x 11 QTYPEs x 4 QCLASSes) and a sample of question pairs in both orders (one asking for unicast delivery, one not); (2) random histories of add-authoritative / add-cached / remove / clear over 1..3-label names from {a,b,ab,ba,_my,_mysrv,foo,bar,foobar,local} with A, AAAA, SRV, TXT, PTR, MB, MG, MR, MX, NULL, unknown RDATA and records of every other type, classes IN/CS/CH/HS/NONE, and 0..2 questions over all QTYPEs x all QCLASSes x unicast, some named after name-like strings of the sources. Non-trivial = the store is non-empty and a question name is a byte-prefix (after concatenation) of a different, non-subdomain registered name",
        assumptions: vec![
            "lowercase names only (case-sensitivity of name equality is not part of the statement)",
            "MAILA / AXFR / IXFR: the statement is silent; such questions never require an answer and admit any type",
            "driven through the verification hook simple_mdns::verif::{ResourceRecordManager, build_reply}",
        ],
        sections: vec![
            Box::new(EnumSection { name: "catalogue", rule: "bounded-exhaustive stores x questions", enumerate: enum_hist, check, exhaustive: true }),
            Box::new(PropSection { name: "histories", rule: "random store histories", strategy: hist_strategy, cases: (400_000, 4_000_000), check }),
        ],
    }
}

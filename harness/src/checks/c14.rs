//! C14 — no datagram can crash or wedge the mDNS services
use super::c13::{apply_to_store, op_strategy, Op};
use super::util::*;
use crate::bridge::*;
use crate::driver::CheckDef;
use crate::ensure;
use crate::gen;
use crate::meter;
use crate::refmodel::*;
use crate::runner::*;
use proptest::collection::vec;
use proptest::prelude::*;
use simple_dns::rdata::RData;
use simple_dns::{header_buffer, Name, Packet, PacketFlag, TYPE};
use simple_mdns::verif::{build_reply, instance_from_records, verif_add_response_to_resources, DomainResourceFilter, ResourceRecordManager};
use simple_mdns::InstanceInformation;
use std::sync::RwLock;

#[derive(Debug, Clone, PartialEq, Eq, Hash, serde::Serialize, serde::Deserialize)]
pub enum Dg {
    Empty,
    Short(Bytes),
    Raw(Bytes),
    /// a reference-encoded packet (hostile names, any record types), optionally mutated
    Encoded(super::c01::Mutated),
    /// the same, forced to be a query / a response
    Query(APacket),
    Response(APacket),
    /// records under the watched service with hostile instance labels
    ServiceResponse(Vec<(Bytes, ARData)>),
    /// very large datagram
    Big(u16, u8),
    /// a query for names the store is likely to hold (colliding alphabet of C13)
    StoreQuery(Vec<AQuestion>),
    /// a query for the owner of the record bundle (kept apart from StoreQuery, whose names are re-drawn)
    BundleQuery(Vec<AQuestion>),
    /// a short body over C01's 12-symbol alphabet behind a header whose id octets, read as label lengths, span the
    /// datagram up to its last octet (0: as a query, 1: as a response)
    Spanning(Vec<u8>, bool),
    /// placeholder, replaced before use by a StoreQuery for <a name-like string of the sources> . <suffix of a name the
    /// store's history mentions> (choice of string, of name, of the number of leading labels dropped, QTYPE)
    DictQuery(u16, u16, u8, u16),
    /// C01's arrangements of special records (A, OPT, OPT with an option, CNAME, empty RDATA): kinds, section, extra count, response?
    Arrangement(Vec<u8>, u8, u16, bool),
    /// a pointer graph of C01 (chains, self / forward / absolute pointers, pointers into fixed fields, stray tail octets)
    Graph(super::c01::Graph),
}

const SERVICE: &str = "_srv._tcp.local";

pub fn render_dg(d: &Dg) -> Vec<u8> {
    match d {
        Dg::Empty => vec![],
        Dg::Short(b) => b.0.iter().copied().take(11).collect(),
        Dg::Raw(b) => b.0.clone(),
        Dg::Encoded(m) => super::c01::render_mutated(m),
        Dg::Query(p) => {
            let mut p = p.clone();
            p.flags &= !0x8000;
            encode_message(&p, &EncOpts::compressed())
        }
        Dg::Response(p) => {
            let mut p = p.clone();
            p.flags |= 0x8000;
            encode_message(&p, &EncOpts::compressed())
        }
        Dg::ServiceResponse(recs) => {
            let mut p = APacket { id: 0, flags: 0x8400, ..Default::default() };
            for (label, rd) in recs {
                let mut name = vec![label.clone()];
                name.extend(AName::from_strs(&["_srv", "_tcp", "local"]).0);
                if AName(name.clone()).is_valid() {
                    p.answers.push(ARecord { name: AName(name), class: 1, cache_flush: false, ttl: 120, rdata: rd.clone() });
                }
            }
            encode_message(&gen::fit(p), &EncOpts::compressed())
        }
        Dg::StoreQuery(qs) | Dg::BundleQuery(qs) => {
            let p = APacket { id: 77, questions: qs.clone(), ..Default::default() };
            encode_message(&p, &EncOpts::compressed())
        }
        Dg::Spanning(body, response) => {
            let len = body.len();
            let mut m = vec![(12 + len).saturating_sub(2) as u8, (12 + len).saturating_sub(3) as u8, if *response { 0x80 } else { 0 }, 0, 0, 1, 0, 0, 0, 0, 0, 0];
            if *response {
                m[5] = 0;
                m[7] = 1;
            }
            m.extend_from_slice(body);
            m
        }
        Dg::DictQuery(..) => vec![],
        Dg::Arrangement(kinds, section, extra, response) => super::c01::render_arrangement(kinds, *section as usize, *extra, *response),
        Dg::Graph(g) => {
            let mut m = super::c01::render_graph(g);
            m.truncate(8900);
            m
        }
        Dg::Big(n, fill) => {
            let n = 1000 + (*n as usize % 8001);
            let mut m = vec![*fill; n];
            // plausible header so that the parser goes into the sections
            m[2] = 0;
            m[3] = 0;
            m
        }
    }
}

fn dg_strategy() -> BoxedStrategy<Dg> {
    prop_oneof![
        1 => Just(Dg::Empty),
        2 => vec(any::<u8>(), 1..12).prop_map(|b| Dg::Short(Bytes(b))),
        2 => vec(any::<u8>(), 12..200).prop_map(|b| Dg::Raw(Bytes(b))),
        6 => super::c01::mutated_strategy(Tier::Quick).prop_map(Dg::Encoded),
        4 => gen::apacket(3).prop_map(Dg::Query),
        4 => gen::apacket(3).prop_map(Dg::Response),
        4 => vec((gen::label(), gen::ardata()), 1..5).prop_map(Dg::ServiceResponse),
        1 => (any::<u16>(), gen::u8b()).prop_map(|(n, f)| Dg::Big(n, f)),
        2 => (vec(proptest::sample::select(vec![0u8, 1, 2, 3, 12, 13, 0x3f, 0x40, 0x80, 0xc0, 0xff, b'a']), 2..=5), any::<bool>()).prop_map(|(b, r)| Dg::Spanning(b, r)),
        2 => (any::<u16>(), any::<u16>(), 0u8..3, proptest::sample::select(vec![255u16, 12, 33, 1])).prop_map(|(a, b, c, d)| Dg::DictQuery(a, b, c, d)),
        2 => (vec(0u8..5, 0..=5), 1u8..=3, prop_oneof![3 => Just(0u16), 1 => Just(1u16), 1 => Just(0xff00u16)], any::<bool>()).prop_map(|(k, s, e, r)| Dg::Arrangement(k, s, e, r)),
        2 => super::c01::graph_strategy(Tier::Quick).prop_map(|mut g| { g.repeat_last = g.repeat_last.min(300); Dg::Graph(g) }),
        4 => vec((super::c13::coll_record(), proptest::sample::select(vec![255u16, 1, 33, 16, 28, 47]), any::<bool>()), 1..3)
            .prop_map(|v| Dg::StoreQuery(v.into_iter().map(|(r, qtype, unicast)| AQuestion { name: r.name, qtype, qclass: 255, unicast }).collect())),
    ]
    .boxed()
}

type In = (Vec<Op>, Vec<Dg>, bool);

fn strategy(_t: Tier) -> BoxedStrategy<In> {
    // the store holds the colliding records of C13 and arbitrary records of every type (hostile names included)
    let any_op = prop_oneof![
        6 => op_strategy(),
        2 => gen::arecord().prop_map(Op::AddAuth),
        1 => gen::arecord().prop_map(Op::AddCached),
    ];
    // one owner holding a bundle of records: addresses of one family, of both or of none, next to records of other
    // types (type codes beyond 255, codes without a typed variant - opaque data under a code that HAS a typed variant
    // is not a record the model knows -, empty RDATA, NSEC, TXT, SRV), and queries for that
    // owner with each QTYPE a responder may treat specially (either address family, ANY, NSEC, the types present)
    let extra = prop_oneof![
        2 => gen::typed_n(257, super::c13::coll_name()),
        2 => (proptest::sample::select(vec![256u16, 258, 999, 32768, 65280, 65534]), vec(any::<u8>(), 1..6)).prop_map(|(code, d)| ARData::Unknown { code, data: Bytes(d) }),
        1 => proptest::sample::select(vec![257u16, 256, 1000, 47, 16]).prop_map(|code| ARData::Empty { code }),
        1 => gen::typed_n(47, super::c13::coll_name()),
        1 => gen::typed_n(16, super::c13::coll_name()),
        1 => gen::typed_n(33, super::c13::coll_name()),
        1 => gen::typed_n(64, super::c13::coll_name()),
    ];
    let bundle = proptest::option::weighted(
        0.4,
        (super::c13::coll_name(), 0u8..4, vec(extra, 0..4), vec(proptest::sample::select(vec![1u16, 28, 255, 47, 257, 999, 33, 16]), 1..4), any::<bool>()),
    );
    (vec(any_op, 0..8), vec(dg_strategy(), 1..20), any::<bool>(), bundle)
        .prop_map(|(mut ops, mut dgs, ch, bundle)| {
            if let Some((owner, family, extras, qtypes, cached_twin)) = bundle {
                let rec = |rdata: ARData| ARecord { name: owner.clone(), class: 1, cache_flush: false, ttl: 120, rdata };
                let mut b = Vec::new();
                if family & 1 != 0 {
                    b.push(Op::AddAuth(rec(ARData::Typed { code: 1, fields: vec![Val::U32(0x0a000063)] })));
                }
                if family & 2 != 0 {
                    b.push(Op::AddAuth(rec(ARData::Typed { code: 28, fields: vec![Val::Bytes(Bytes(vec![0xfe; 16]))] })));
                }
                for (i, x) in extras.into_iter().enumerate() {
                    b.push(if cached_twin && i == 0 { Op::AddCached(rec(x)) } else { Op::AddAuth(rec(x)) });
                }
                // the bundle goes in after the first half of the history, its queries among the datagrams
                let at = ops.len() / 2;
                for (k, o) in b.into_iter().enumerate() {
                    ops.insert(at + k, o);
                }
                let n = dgs.len();
                for (k, qtype) in qtypes.into_iter().enumerate() {
                    let q = Dg::BundleQuery(vec![AQuestion { name: owner.clone(), qtype, qclass: if k % 2 == 0 { 1 } else { 255 }, unicast: k % 3 == 2 }]);
                    dgs.insert((k * 7 + 1) % (n + 1), q);
                }
            }
            // queries for the store ask for names its history mentions (owners, also of removed records, and targets)
            let mentioned: Vec<AName> = ops
                .iter()
                .filter_map(|o| match o {
                    Op::AddAuth(r) | Op::AddCached(r) | Op::Remove(r) => Some(r),
                    Op::Clear => None,
                })
                .flat_map(|r| {
                    let mut v = vec![r.name.clone()];
                    if let ARData::Typed { code, fields } = &r.rdata {
                        for (n, _) in embedded_names(*code, fields) {
                            v.push(n.clone());
                        }
                    }
                    v
                })
                .collect();
            if !mentioned.is_empty() {
                let mut k = 0usize;
                for d in dgs.iter_mut() {
                    if let Dg::StoreQuery(qs) = d {
                        for q in qs.iter_mut() {
                            q.name = mentioned[k % mentioned.len()].clone();
                            k += 1;
                        }
                    }
                }
            }
            // queries built from the name-like strings of the sources (service prefixes a responder may treat specially)
            let dn = gen::dict_names();
            for d in dgs.iter_mut() {
                if let Dg::DictQuery(a, b, drop, qtype) = d {
                    let base = if mentioned.is_empty() { AName::from_strs(&["local"]) } else { mentioned[gen::pick(*b, mentioned.len())].clone() };
                    let skip = (*drop as usize).min(base.0.len().saturating_sub(1));
                    let mut labels = dn[gen::pick(*a, dn.len())].0.clone();
                    labels.extend(base.0[skip..].iter().cloned());
                    let name = AName(labels);
                    *d = if name.is_valid() { Dg::StoreQuery(vec![AQuestion { name, qtype: *qtype, qclass: 255, unicast: false }]) } else { Dg::Empty };
                }
            }
            (ops, dgs, ch)
        })
        .boxed()
}

/// One datagram through the three receive loops, step for step
/// (simple_responder.rs responder_loop, service_discovery.rs receive_packets_loop, oneshot_resolver.rs).
pub fn handle_datagram(
    buf: &[u8],
    store: &RwLock<ResourceRecordManager<'static>>,
    service_name: &Name<'static>,
    full_name: &Name<'static>,
    on_discovery: &mut Option<std::sync::mpsc::Sender<InstanceInformation>>,
    case: &mut Case,
) -> Result<(), Fail> {
    // --- SimpleMdnsResponder::responder_loop
    let is_response = lib("responder: header_buffer::has_flags", || header_buffer::has_flags(buf, PacketFlag::RESPONSE).unwrap_or(true))?;
    if !is_response {
        if let Ok(packet) = lib("responder: Packet::parse", || Packet::parse(buf))? {
            let guard = store.read().map_err(|_| Fail::new("c14:lock-poisoned", "the record store lock is poisoned"))?;
            let reply = lib("responder: build_reply", || build_reply(packet, &guard).map(|(p, u)| (p.build_bytes_vec_compressed(), u)))?;
            if let Some((Ok(bytes), _)) = reply {
                case.class("reply-sent");
                if let Ok(w) = walk(&bytes) {
                    if w.records.iter().any(|r| ![1u16, 12, 16, 28, 33].contains(&r.rtype)) {
                        case.class("reply-with-other-record-types");
                    }
                }
                let ok = lib("reply: Packet::parse", || Packet::parse(&bytes).is_ok())?;
                ensure!(ok, "c14:reply-unparseable", "the responder's reply is not a parseable DNS message: {}", hex(&bytes[..bytes.len().min(160)]));
            }
        }
    }
    // --- ServiceDiscovery::receive_packets_loop
    match lib("discovery: Packet::parse", || Packet::parse(buf))? {
        Ok(packet) => {
            case.class("parsed");
            if lib("has_flags", || packet.has_flags(PacketFlag::RESPONSE))? {
                let mut guard = store.write().map_err(|_| Fail::new("c14:lock-poisoned", "the record store lock is poisoned"))?;
                // every third response goes through the async (tokio) copy of the ingestion step
                let use_async = buf.len() % 3 == 0;
                let r = meter::catch(|| {
                    if use_async {
                        let rt = tokio::runtime::Builder::new_current_thread().build().unwrap();
                        let (tx, _rx) = tokio::sync::mpsc::channel(4);
                        let mut ch = if on_discovery.is_some() { Some(tx) } else { None };
                        rt.block_on(simple_mdns::verif::verif_add_response_to_resources_async(packet, service_name, full_name, &mut guard, &mut ch))
                    } else {
                        verif_add_response_to_resources(packet, service_name, full_name, &mut guard, on_discovery)
                    }
                });
                drop(guard);
                if let Err(p) = r {
                    let mut f: Fail = p.into();
                    f.msg = format!("discovery: add_response_to_resources: {}", f.msg);
                    return Err(f);
                }
                case.class("response-ingested");
            } else {
                let guard = store.read().map_err(|_| Fail::new("c14:lock-poisoned", "the record store lock is poisoned"))?;
                let reply = lib("discovery: build_reply", || build_reply(packet, &guard).map(|(p, _)| p.build_bytes_vec_compressed()))?;
                if let Some(Ok(bytes)) = reply {
                    let ok = lib("reply: Packet::parse", || Packet::parse(&bytes).is_ok())?;
                    ensure!(ok, "c14:reply-unparseable", "the discovery service's reply is not a parseable DNS message: {}", hex(&bytes[..bytes.len().min(160)]));
                }
            }
        }
        Err(_) => case.class("unparseable"),
    }
    ensure!(!store.is_poisoned(), "c14:lock-poisoned", "the record store lock is poisoned after handling a datagram");
    // --- the application side: get_known_services
    {
        let guard = store.read().map_err(|_| Fail::new("c14:lock-poisoned", "the record store lock is poisoned"))?;
        lib("get_known_services", || {
            guard.get_domain_resources(service_name, DomainResourceFilter::cached()).filter_map(|g| instance_from_records(service_name, g)).count()
        })?;
    }
    // --- OneShotMdnsResolver: get_next_response looks at a 4096-byte buffer, then parses the datagram
    {
        let mut big = [0u8; 4096];
        let n = buf.len().min(4096);
        big[..n].copy_from_slice(&buf[..n]);
        let accept = lib("resolver: header peek", || -> Result<bool, simple_dns::SimpleDnsError> {
            Ok(header_buffer::has_flags(&big, PacketFlag::RESPONSE)? && header_buffer::id(&big)? == 0 && header_buffer::answers(&big)? > 0)
        })?;
        if let Ok(true) = accept {
            if let Ok(response) = lib("resolver: Packet::parse", || Packet::parse(&big[..n]))? {
                lib("resolver: scan answers", || {
                    let mut hits = 0;
                    for a in response.answers.iter().chain(response.additional_records.iter()) {
                        if a.name == *service_name && (a.match_qtype(TYPE::SRV.into()) || a.match_qtype(TYPE::A.into())) {
                            hits += 1;
                        }
                        if let RData::SRV(s) = &a.rdata {
                            hits += s.port as usize;
                        }
                    }
                    hits
                })?;
            }
        }
    }
    Ok(())
}

fn canary() -> ARecord {
    ARecord {
        name: AName::from_strs(&["canary", "local"]),
        class: 1,
        cache_flush: false,
        ttl: 120,
        rdata: ARData::Typed { code: 1, fields: vec![Val::U32(0x7f000001)] },
    }
}

fn check(input: &In, case: &mut Case) -> Result<(), Fail> {
    let (ops, dgs, with_channel) = input;
    let mut mgr: ResourceRecordManager<'static> = ResourceRecordManager::new();
    for op in ops {
        apply_to_store(&mut mgr, op)?;
    }
    apply_to_store(&mut mgr, &Op::AddAuth(canary()))?;
    let service_name = Name::new(SERVICE).unwrap().into_owned();
    let full_name = Name::new("self._srv._tcp.local").unwrap().into_owned();
    let store = RwLock::new(mgr);
    let (tx, _rx) = std::sync::mpsc::channel();
    let mut chan = if *with_channel { Some(tx) } else { None };
    for d in dgs {
        let buf = render_dg(d);
        if buf.len() < 12 {
            case.nontrivial = true;
            case.class("short-datagram");
        }
        let mut c = Case::default();
        handle_datagram(&buf, &store, &service_name, &full_name, &mut chan, &mut c)?;
        if c.classes.iter().any(|x| x == "parsed") {
            let hostile = match d {
                Dg::Query(p) | Dg::Response(p) => p.questions.iter().map(|q| &q.name).chain(p.records().map(|r| &r.name)).any(|n| n.0.iter().any(|l| std::str::from_utf8(l).is_err() || l.len() == 63 || l.contains(&b'.'))),
                Dg::ServiceResponse(r) => r.iter().any(|(l, _)| std::str::from_utf8(l).is_err() || l.len() == 63 || l.contains(&b'.')),
                _ => false,
            };
            if hostile {
                case.nontrivial = true;
                case.class("hostile-names-parsed");
            }
        }
        case.classes.extend(c.classes);
    }
    case.classes.sort();
    case.classes.dedup();
    case.extra_evals = dgs.len() as u64;
    // the store is still usable: the canary is answered
    let q = APacket { id: 9, questions: vec![AQuestion { name: canary().name, qtype: 1, qclass: 1, unicast: false }], ..Default::default() };
    let qp = lib("build", || build(&q))?.map_err(|e| Fail::new("harness:build", e))?;
    let guard = store.read().map_err(|_| Fail::new("c14:lock-poisoned", "the record store lock is poisoned"))?;
    let answered = lib("build_reply", || build_reply(qp, &guard).map(|(p, _)| p.answers.len()))?;
    ensure!(matches!(answered, Some(n) if n >= 1), "c14:store-unusable", "after the datagrams the store answers the canary query with {:?}", answered);
    Ok(())
}

// ---- real sockets (sampled)

fn probe(sock: &std::net::UdpSocket, name: &str, tries: usize) -> bool {
    let mut q = Packet::new_query(0x7777);
    q.questions.push(simple_dns::Question::new(Name::new_unchecked(name), TYPE::A.into(), simple_dns::CLASS::IN.into(), true));
    let bytes = q.build_bytes_vec().unwrap();
    let mut buf = [0u8; 9000];
    for _ in 0..tries {
        if sock.send_to(&bytes, "224.0.0.251:5353").is_err() {
            return false;
        }
        let deadline = std::time::Instant::now() + std::time::Duration::from_millis(400);
        while std::time::Instant::now() < deadline {
            if let Ok((n, _)) = sock.recv_from(&mut buf) {
                if let Ok(p) = Packet::parse(&buf[..n]) {
                    if p.id() == 0x7777 && p.has_flags(PacketFlag::RESPONSE) && !p.answers.is_empty() {
                        return true;
                    }
                }
            }
        }
    }
    false
}

/// Some(true): answers. Some(false): silent for 10 s while a responder created just now answers on the same
/// sockets (so the silence is not the environment's). None: nothing answers; no claim.
fn patient_probe(sock: &std::net::UdpSocket, name: &str) -> Option<bool> {
    if probe(sock, name, 5) {
        return Some(true);
    }
    std::thread::sleep(std::time::Duration::from_millis(500));
    if probe(sock, name, 20) {
        return Some(true);
    }
    let mut control = simple_mdns::sync_discovery::SimpleMdnsResponder::new(10);
    control.add_resource(simple_dns::ResourceRecord::new(Name::new_unchecked("vp-control.local"), simple_dns::CLASS::IN, 10, RData::A(simple_dns::rdata::A { address: 0x7f000009 })));
    std::thread::sleep(std::time::Duration::from_millis(300));
    if probe(sock, "vp-control.local", 10) {
        // one more chance for the responder under test, now that the environment is known to work
        Some(probe(sock, name, 5))
    } else {
        None
    }
}

fn enum_socket(t: Tier, shard: usize, _n: usize, f: &mut dyn FnMut(u32) -> bool) {
    if shard == 0 {
        f(t.pick(300, 6000));
    }
}

fn check_socket(count: &u32, case: &mut Case) -> Result<(), Fail> {
    use proptest::strategy::ValueTree;
    use simple_mdns::sync_discovery::{ServiceDiscovery, SimpleMdnsResponder};
    meter::install_hook();
    let before = meter::ALL_PANICS.lock().unwrap().len();
    let mut responder = SimpleMdnsResponder::new(10);
    responder.add_resource(simple_dns::ResourceRecord::new(
        Name::new_unchecked("vp-canary.local"),
        simple_dns::CLASS::IN,
        10,
        RData::A(simple_dns::rdata::A { address: 0x7f000001 }),
    ));
    // a record whose serialisation fails (LOC refuses version != 0): asking for it must not end the loop
    responder.add_resource(simple_dns::ResourceRecord::new(
        Name::new_unchecked("vp-loc.local"),
        simple_dns::CLASS::IN,
        10,
        RData::LOC(simple_dns::rdata::LOC { version: 1, size: 0, horizontal_precision: 0, vertical_precision: 0, latitude: 0, longitude: 0, altitude: 0 }),
    ));
    let discovery = ServiceDiscovery::new(InstanceInformation::new("vpself".into()).with_socket_address("127.0.0.1:9".parse().unwrap()), SERVICE, 60);
    let sock = match std::net::UdpSocket::bind("0.0.0.0:0") {
        Ok(s) => s,
        Err(_) => {
            case.class("socket-tier-skipped:no-socket");
            case.nontrivial = true;
            return Ok(());
        }
    };
    let _ = sock.set_read_timeout(Some(std::time::Duration::from_millis(100)));
    std::thread::sleep(std::time::Duration::from_millis(200));
    if discovery.is_err() || !probe(&sock, "vp-canary.local", 5) {
        // no usable loopback multicast here: no claim
        case.class("socket-tier-skipped:no-multicast");
        case.nontrivial = true;
        return Ok(());
    }
    let discovery = discovery.unwrap();
    // a deterministic sample of hostile datagrams
    let mut runner = proptest::test_runner::TestRunner::deterministic();
    let strat = dg_strategy();
    let mut sent = 0u64;
    for i in 0..*count {
        let d = strat.new_tree(&mut runner).unwrap().current();
        let mut bytes = render_dg(&d);
        bytes.truncate(8900);
        if sock.send_to(&bytes, "224.0.0.251:5353").is_ok() {
            sent += 1;
        }
        if i % 64 == 63 {
            std::thread::sleep(std::time::Duration::from_millis(5));
        }
    }
    // the one-shot resolver: it waits for responses with id 0 and at least one answer; feed it generated
    // responses about the very name it asks for while it is waiting
    let resolver_panic: std::sync::Arc<std::sync::Mutex<Option<meter::Panic>>> = Default::default();
    {
        let rp = resolver_panic.clone();
        let resolver_thread = std::thread::Builder::new().name("vp-resolver".into()).spawn(move || {
            let r = meter::catch(|| {
                if let Ok(mut resolver) = simple_mdns::sync_discovery::OneShotMdnsResolver::new() {
                    resolver.set_query_timeout(std::time::Duration::from_millis(250));
                    for _ in 0..6 {
                        let _ = resolver.query_service_address_and_port("vp-bait.local");
                        let _ = resolver.query_service_address("vp-bait.local");
                    }
                }
            });
            if let Err(p) = r {
                *rp.lock().unwrap() = Some(p);
            }
        });
        // the async-tokio copy of the resolver, waiting for the same responses on its own runtime
        let rp2 = resolver_panic.clone();
        let async_resolver_thread = std::thread::Builder::new().name("vp-resolver-async".into()).spawn(move || {
            let r = meter::catch(|| {
                let Ok(rt) = tokio::runtime::Builder::new_current_thread().enable_all().build() else { return };
                rt.block_on(async {
                    if let Ok(mut resolver) = simple_mdns::async_discovery::OneShotMdnsResolver::new() {
                        resolver.set_query_timeout(std::time::Duration::from_millis(250));
                        for _ in 0..6 {
                            let a = resolver.query_service_address_and_port("vp-bait.local").await;
                            let b = resolver.query_service_address("vp-bait.local").await;
                            if std::env::var_os("VERIF_DEBUG").is_some() {
                                eprintln!("async resolver: {:?} {:?}", a, b);
                            }
                        }
                    } else if std::env::var_os("VERIF_DEBUG").is_some() {
                        eprintln!("async resolver: cannot be created");
                    }
                });
            });
            if let Err(p) = r {
                *rp2.lock().unwrap() = Some(p);
            }
        });
        let bait_name = AName::from_strs(&["vp-bait", "local"]);
        let t_end = std::time::Instant::now() + std::time::Duration::from_millis(2600);
        let mut k = 0u32;
        while std::time::Instant::now() < t_end {
            // answers about the bait name: every kind of RDATA, also empty RDATA under the asked types
            // a scrambled order: a fixed cycle phase-locks with the resolvers' query / answer rhythm
            let rd = match (k.wrapping_mul(2654435761) >> 13) % 7 {
                0 => ARData::Empty { code: 33 },
                1 => ARData::Empty { code: 1 },
                2 => default_typed(33),
                3 => default_typed(1),
                4 => default_typed(16),
                5 => ARData::Unknown { code: 33 + 1000, data: Bytes(vec![1]) },
                _ => strat.new_tree(&mut runner).map(|t| match t.current() { Dg::ServiceResponse(v) => v.first().map(|x| x.1.clone()).unwrap_or(ARData::Empty { code: 28 }), _ => ARData::Empty { code: 28 } }).unwrap_or(ARData::Empty { code: 28 }),
            };
            let mut p = APacket { id: 0, flags: 0x8400, ..Default::default() };
            // now and then under a class the library has no name for (an entry a lenient parser might skip)
            let class = if k % 5 == 4 { 0x42 } else { 1 };
            p.answers.push(ARecord { name: bait_name.clone(), class, cache_flush: k % 2 == 0, ttl: 5, rdata: rd });
            if k % 3 == 0 {
                p.additionals.push(ARecord { name: bait_name.clone(), class: 1, cache_flush: false, ttl: 5, rdata: ARData::Empty { code: 1 } });
            }
            let bytes = encode_message(&p, &EncOpts::compressed());
            if sock.send_to(&bytes, "224.0.0.251:5353").is_ok() {
                sent += 1;
            }
            k += 1;
            std::thread::sleep(std::time::Duration::from_millis(4));
        }
        if let Ok(t) = resolver_thread {
            let _ = t.join();
        }
        if let Ok(t) = async_resolver_thread {
            let _ = t.join();
        }
    }
    if let Some(p) = resolver_panic.lock().unwrap().take() {
        if p.in_library() {
            return Err(Fail::new(p.signature(), format!("the one-shot resolver panicked while responses about the name it asked for were arriving: {}:{}: {}", p.file, p.line, p.msg)));
        }
    }
    // ---- the async-tokio services: their own copies of the loops, on a current-thread runtime in a helper thread
    let stop = std::sync::Arc::new(std::sync::atomic::AtomicBool::new(false));
    let async_ready = std::sync::Arc::new(std::sync::atomic::AtomicBool::new(false));
    let async_store_panic: std::sync::Arc<std::sync::Mutex<Option<meter::Panic>>> = Default::default();
    let async_thread = {
        let (stop, ready, sp) = (stop.clone(), async_ready.clone(), async_store_panic.clone());
        std::thread::Builder::new().name("vp-async-services".into()).spawn(move || {
            let Ok(rt) = tokio::runtime::Builder::new_current_thread().enable_all().build() else { return };
            rt.block_on(async {
                let mut responder = simple_mdns::async_discovery::SimpleMdnsResponder::new(10);
                responder
                    .add_resource(simple_dns::ResourceRecord::new(Name::new_unchecked("vp-canary-async.local"), simple_dns::CLASS::IN, 10, RData::A(simple_dns::rdata::A { address: 0x7f000002 })))
                    .await;
                responder
                    .add_resource(simple_dns::ResourceRecord::new(
                        Name::new_unchecked("vp-loc-async.local"),
                        simple_dns::CLASS::IN,
                        10,
                        RData::LOC(simple_dns::rdata::LOC { version: 1, size: 0, horizontal_precision: 0, vertical_precision: 0, latitude: 0, longitude: 0, altitude: 0 }),
                    ))
                    .await;
                let discovery = simple_mdns::async_discovery::ServiceDiscovery::new(InstanceInformation::new("vpselfasync".into()).with_socket_address("127.0.0.1:9".parse().unwrap()), SERVICE, 60);
                ready.store(true, std::sync::atomic::Ordering::SeqCst);
                while !stop.load(std::sync::atomic::Ordering::SeqCst) {
                    tokio::time::sleep(std::time::Duration::from_millis(20)).await;
                }
                if let Ok(d) = &discovery {
                    // the store must still be usable by the application
                    let r = tokio::time::timeout(std::time::Duration::from_secs(30), d.get_known_services()).await;
                    if r.is_err() {
                        *sp.lock().unwrap() = Some(meter::Panic { msg: "get_known_services of the async discovery did not return within 30 s".into(), file: "simple-mdns/src/async_discovery/service_discovery.rs".into(), line: 0 });
                    }
                }
            });
        })
    };
    let t_wait = std::time::Instant::now();
    while !async_ready.load(std::sync::atomic::Ordering::SeqCst) && t_wait.elapsed() < std::time::Duration::from_secs(2) {
        std::thread::sleep(std::time::Duration::from_millis(10));
    }
    let async_up = async_ready.load(std::sync::atomic::Ordering::SeqCst) && probe(&sock, "vp-canary-async.local", 5);
    if async_up {
        case.class("async-services-ran");
        let mut runner2 = proptest::test_runner::TestRunner::deterministic();
        for i in 0..(*count).min(1500) {
            let d = strat.new_tree(&mut runner2).unwrap().current();
            let mut bytes = render_dg(&d);
            bytes.truncate(8900);
            if sock.send_to(&bytes, "224.0.0.251:5353").is_ok() {
                sent += 1;
            }
            if i % 64 == 63 {
                std::thread::sleep(std::time::Duration::from_millis(5));
            }
        }
        let mut q = Packet::new_query(0x7779);
        q.questions.push(simple_dns::Question::new(Name::new_unchecked("vp-loc-async.local"), simple_dns::QTYPE::ANY, simple_dns::QCLASS::ANY, true));
        let qb = q.build_bytes_vec().unwrap();
        for _ in 0..3 {
            let _ = sock.send_to(&qb, "224.0.0.251:5353");
        }
        std::thread::sleep(std::time::Duration::from_millis(300));
    } else {
        case.class("async-services-skipped");
    }
    if async_up {
        sent += rivals(&sock, "vpselfasync");
    }
    let async_alive = if async_up { patient_probe(&sock, "vp-canary-async.local") } else { Some(true) };
    stop.store(true, std::sync::atomic::Ordering::SeqCst);
    if let Ok(t) = async_thread {
        let _ = t.join();
    }
    // valid queries whose reply cannot be built
    {
        let mut q = Packet::new_query(0x7778);
        q.questions.push(simple_dns::Question::new(Name::new_unchecked("vp-loc.local"), simple_dns::QTYPE::ANY, simple_dns::QCLASS::ANY, true));
        let bytes = q.build_bytes_vec().unwrap();
        for _ in 0..3 {
            if sock.send_to(&bytes, "224.0.0.251:5353").is_ok() {
                sent += 1;
            }
        }
        std::thread::sleep(std::time::Duration::from_millis(50));
    }
    case.extra_evals = sent;
    case.nontrivial = true;
    case.class("socket-tier-ran");
    std::thread::sleep(std::time::Duration::from_millis(300));
    // barrier: the responder still answers, the discovery store is still usable
    sent += rivals(&sock, "vpself");
    case.extra_evals = sent;
    let alive = patient_probe(&sock, "vp-canary.local");
    // the application side on a helper thread: a receive loop that wedged while holding the store's lock would
    // block this call for ever
    let (ktx, krx) = std::sync::mpsc::channel();
    let _ = std::thread::Builder::new().name("vp-known-services".into()).spawn(move || {
        let r = meter::catch(|| discovery.get_known_services().len());
        let _ = ktx.send(r);
    });
    let known = match krx.recv_timeout(std::time::Duration::from_secs(30)) {
        Ok(r) => r,
        Err(_) => {
            return Err(Fail::new(
                "c14:store-wedged",
                format!("get_known_services of the sync discovery did not return within 30 s after {} datagrams (the last ones: responses owned by the discoverer's own instance name)", sent),
            ));
        }
    };
    let panics: Vec<(String, meter::Panic)> = meter::ALL_PANICS.lock().unwrap()[before..].iter().filter(|(_, p)| p.in_library()).cloned().collect();
    if let Some((thread, p)) = panics.first() {
        return Err(Fail::new(p.signature(), format!("a library thread ({}) panicked while {} hostile datagrams were delivered over loopback multicast: {}:{}: {}", thread, sent, p.file, p.line, p.msg)));
    }
    if let Err(p) = known {
        return Err(Fail::new("c14:store-unusable", format!("get_known_services panicked after the datagrams: {}", p.msg)));
    }
    if let Some(p) = async_store_panic.lock().unwrap().take() {
        return Err(Fail::new("c14:store-unusable", format!("async discovery: {}", p.msg)));
    }
    if alive.is_none() || async_alive.is_none() {
        // neither the responder under test nor a fresh control responder answers: the environment went away
        case.class("socket-tier-inconclusive:control-responder-silent");
        return Ok(());
    }
    ensure!(async_alive == Some(true), "c14:responder-dead", "the async responder answered before the hostile datagrams and does not answer afterwards (30 retries over 10 s), while a responder created afterwards does");
    ensure!(alive == Some(true), "c14:responder-dead", "the responder answered before {} hostile datagrams and does not answer afterwards (30 retries over 10 s), while a responder created afterwards does", sent);
    Ok(())
}

/// rivals: responses whose records are owned by a discoverer's own instance name, with the registered type and
/// class and the same or different RDATA (another host claiming the name); returns the number of datagrams sent
fn rivals(sock: &std::net::UdpSocket, own: &str) -> u64 {
    let mut sent = 0;
    let owner = AName::from_strs(&[own, "_srv", "_tcp", "local"]);
    for (k, rd) in [
        super::c13::a(0x7f000001),
        super::c13::a(0x7f000002),
        ARData::Typed { code: 33, fields: vec![Val::U16(0), Val::U16(0), Val::U16(9), Val::Name(owner.clone())] },
        ARData::Typed { code: 33, fields: vec![Val::U16(0), Val::U16(0), Val::U16(10), Val::Name(owner.clone())] },
        ARData::Typed { code: 16, fields: vec![Val::Strs(vec![Bytes(b"rival=1".to_vec())])] },
        ARData::Typed { code: 16, fields: vec![Val::Strs(vec![])] },
    ]
    .into_iter()
    .enumerate()
    {
        let mut p = APacket { id: 0, flags: 0x8400, ..Default::default() };
        p.answers.push(ARecord { name: owner.clone(), class: 1, cache_flush: k % 2 == 1, ttl: 60, rdata: rd });
        let bytes = encode_message(&p, &EncOpts::compressed());
        for _ in 0..2 {
            if sock.send_to(&bytes, "224.0.0.251:5353").is_ok() {
                sent += 1;
            }
        }
    }
    std::thread::sleep(std::time::Duration::from_millis(100));
    sent
}

// ---- readers and writers on the shared store at the same time

// ---- replies larger than 16 KiB: a responder with a few hundred records answers an ANY query for their parent

/// (which record carries the padding, padding octets, query id)
fn enum_big(t: Tier, shard: usize, n: usize, f: &mut dyn FnMut((u8, u8, u16)) -> bool) {
    let mut i = 0;
    for which in 0..t.pick(6u8, 24) {
        for pad in 0..=255u8 {
            i += 1;
            if mine(i, shard, n) && !f((which, pad, if pad % 2 == 0 { 0x4141 } else { 0x0007 })) {
                return;
            }
        }
    }
}

fn check_big(input: &(u8, u8, u16), case: &mut Case) -> Result<(), Fail> {
    let (which, pad, id) = *input;
    const OWNERS: usize = 96;
    let mut store: ResourceRecordManager<'static> = ResourceRecordManager::new();
    let mut registered: Vec<ARecord> = Vec::new();
    let mut add = |r: ARecord, store: &mut ResourceRecordManager<'static>| -> Result<(), Fail> {
        let rr = build_record(&r).map_err(|e| Fail::new("harness:build", e))?.into_owned();
        lib("add_authoritative_resource", || store.add_authoritative_resource(rr))?;
        registered.push(r);
        Ok(())
    };
    let a = |ip: u32| ARData::Typed { code: 1, fields: vec![Val::U32(ip)] };
    add(ARecord { name: AName::from_strs(&["big", "local"]), class: 1, cache_flush: false, ttl: 120, rdata: a(1) }, &mut store)?;
    for k in 0..OWNERS {
        let owner = AName::from_strs(&[&format!("r{}", k), "big", "local"]);
        let mut strings = vec![Bytes(vec![b'x'; 150])];
        if k == which as usize * 4 && pad > 0 {
            strings.push(Bytes(vec![b'p'; pad as usize]));
        }
        add(ARecord { name: owner.clone(), class: 1, cache_flush: false, ttl: 120, rdata: ARData::Typed { code: 16, fields: vec![Val::Strs(strings)] } }, &mut store)?;
        add(ARecord { name: owner, class: 1, cache_flush: false, ttl: 120, rdata: a(0x0a000000 + k as u32) }, &mut store)?;
    }
    let q = APacket { id, questions: vec![AQuestion { name: AName::from_strs(&["big", "local"]), qtype: 255, qclass: 1, unicast: false }], ..Default::default() };
    let qbytes = encode_message(&q, &EncOpts::plain());
    let packet = parse(&qbytes)?.map_err(|e| Fail::new("harness:query", format!("{:?}", e)))?;
    let reply = lib("responder: build_reply", || build_reply(packet, &store).map(|(p, u)| (p.build_bytes_vec_compressed(), u)))?;
    let Some((Ok(bytes), _)) = reply else {
        // no reply, or a reply the serialiser refuses: nothing was produced, nothing to parse
        case.class("no-reply-produced:no-claim");
        return Ok(());
    };
    case.class(if bytes.len() > 16384 { "reply-over-16k" } else { "reply-below-16k" });
    case.nontrivial = bytes.len() > 16384;
    let back = parse(&bytes)?.map_err(|e| Fail::new("c14:reply-unparseable", format!("a {}-byte reply is not a parseable DNS message: {:?}", bytes.len(), e)))?;
    // what the reply holds is C13's business; here it only has to be a parseable message
    let _ = (back, &registered);
    Ok(())
}

fn enum_concurrent(t: Tier, shard: usize, _n: usize, f: &mut dyn FnMut(u32) -> bool) {
    if shard < t.pick(2, 6) {
        f(shard as u32);
    }
}

fn check_concurrent(seed: &u32, case: &mut Case) -> Result<(), Fail> {
    use proptest::strategy::ValueTree;
    let mut mgr: ResourceRecordManager<'static> = ResourceRecordManager::new();
    for r in super::c13::catalogue() {
        apply_to_store(&mut mgr, &Op::AddAuth(r))?;
    }
    apply_to_store(&mut mgr, &Op::AddAuth(canary()))?;
    let store = std::sync::Arc::new(RwLock::new(mgr));
    let service_name = Name::new(SERVICE).unwrap().into_owned();
    let full_name = Name::new("self._srv._tcp.local").unwrap().into_owned();
    // deterministic datagrams
    let mut runner = proptest::test_runner::TestRunner::new_with_rng(
        proptest::test_runner::Config::default(),
        proptest::test_runner::TestRng::from_seed(proptest::test_runner::RngAlgorithm::ChaCha, &[*seed as u8 + 1; 32]),
    );
    let strat = dg_strategy();
    let dgs: Vec<Vec<u8>> = (0..400).map(|_| render_dg(&strat.new_tree(&mut runner).unwrap().current())).collect();
    let dgs = std::sync::Arc::new(dgs);
    let failures: std::sync::Arc<std::sync::Mutex<Vec<Fail>>> = Default::default();
    let deadline = std::time::Instant::now() + std::time::Duration::from_millis(300);
    let mut handles = Vec::new();
    for t in 0..6usize {
        let (store, dgs, failures, sn, fnm) = (store.clone(), dgs.clone(), failures.clone(), service_name.clone(), full_name.clone());
        handles.push(std::thread::spawn(move || {
            let (tx, _rx) = std::sync::mpsc::channel();
            let mut chan = if t % 2 == 0 { Some(tx) } else { None };
            let mut k = t;
            let mut n = 0u64;
            while std::time::Instant::now() < deadline {
                let mut c = Case::default();
                if let Err(f) = handle_datagram(&dgs[k % dgs.len()], &store, &sn, &fnm, &mut chan, &mut c) {
                    failures.lock().unwrap().push(f);
                    break;
                }
                k += 7;
                n += 1;
            }
            n
        }));
    }
    let mut total = 0;
    for h in handles {
        total += h.join().unwrap_or(0);
    }
    case.extra_evals = total;
    case.nontrivial = true;
    if let Some(f) = failures.lock().unwrap().first() {
        return Err(f.clone());
    }
    ensure!(!store.is_poisoned(), "c14:lock-poisoned", "the record store lock is poisoned after concurrent handling");
    Ok(())
}

pub fn def() -> CheckDef {
    CheckDef {
        id: "C14",
        rule: "(1) pure pipeline, proptest: a store pre-loaded by 0..7 random operations (as C13) plus a canary record; sequences of 1..19 datagrams drawn from {empty, 1..11 bytes, random bytes, reference encodings with hostile names and 0..8 mutations, valid queries, valid responses, responses under the watched service with hostile instance labels (non-UTF-8, 63 bytes, dots), 1000..9000-byte datagrams, C01's pointer graphs, short bodies behind a header whose id octets span the datagram as labels}; each datagram goes, step for step, through what the three receive loops do (responder: header peek with unwrap_or(true), parse, build_reply, build_bytes_vec_compressed; discovery: parse, add_response_to_resources (sync, or the async-tokio copy for every third response) under a real RwLock write guard with and without an on_discovery channel, or build_reply; application: get_known_services; one-shot resolver: header peek on a 4096-byte buffer, parse, answer scan). Oracle: no panic, lock not poisoned, every reply parses, the canary is still answered. (1a) replies beyond 16 KiB: a responder holding 193 records under r0..r95.big.local answers an ANY query for big.local; one record is padded by 0..255 octets (6 (24 thorough) choices of the record) so that every name meets every alignment around offset 16384; the reply, if one is produced, must parse. (1b) six threads run the same handling steps concurrently against one shared store for 300 ms (no panic, lock not poisoned; schedules are whatever the OS gives). (2) real sockets, sampled: a real SimpleMdnsResponder and ServiceDiscovery (sync), then the async-tokio responder and discovery on a current-thread runtime, on loopback multicast receive 300 (6000 thorough) generated datagrams between two probe queries, and a real OneShotMdnsResolver (sync, and the async-tokio copy on its own runtime) issues queries while generated responses about the name it asks for (every RDATA kind, also empty RDATA under the asked types) arrive; violation iff a library thread panicked or the responder stops answering (30 retries over 10 s, and a control responder created afterwards does answer; if that one is silent too the section makes no claim); skipped (no claim) when multicast is unusable. Non-trivial = a datagram shorter than 12 bytes or a parsed datagram with hostile names",
        assumptions: vec![
            "the pure pipeline copies the loop bodies (simple_responder.rs, service_discovery.rs, oneshot_resolver.rs); an edit to the loops themselves is only visible to the socket section",
            "reader/writer interleavings on the shared store are only sampled (section concurrent), not explored systematically",
        ],
        sections: vec![
            Box::new(ReplayOnly { name: "fuzz-bytes", check: check_raw }),
            Box::new(PropSection { name: "pipeline", rule: "datagram sequences through the handling steps", strategy, cases: (60_000, 800_000), check }),
            Box::new(EnumSection { name: "big-replies", rule: "replies beyond 16 KiB, every alignment of the 16384 boundary", enumerate: enum_big, check: check_big, exhaustive: false }),
            Box::new(EnumSection { name: "concurrent", rule: "six threads handle datagrams against one shared store for 300 ms", enumerate: enum_concurrent, check: check_concurrent, exhaustive: false }),
            Box::new(EnumSection { name: "sockets", rule: "real services on loopback multicast", enumerate: enum_socket, check: check_socket, exhaustive: false }),
        ],
    }
}

/// fuzz entry: datagrams are 2-byte-length-prefixed chunks of the input, handled against a store
/// holding the C13 catalogue (authoritative), two cached records and the canary
pub fn fuzz_entry(data: &[u8], case: &mut Case) -> Result<(), Fail> {
    let mut mgr: ResourceRecordManager<'static> = ResourceRecordManager::new();
    for (i, r) in super::c13::catalogue().into_iter().enumerate() {
        apply_to_store(&mut mgr, &if i % 5 == 4 { Op::AddCached(r) } else { Op::AddAuth(r) })?;
    }
    apply_to_store(&mut mgr, &Op::AddAuth(canary()))?;
    let service_name = Name::new(SERVICE).unwrap().into_owned();
    let full_name = Name::new("self._srv._tcp.local").unwrap().into_owned();
    let store = RwLock::new(mgr);
    let (tx, _rx) = std::sync::mpsc::channel();
    let mut chan = Some(tx);
    let mut pos = 0;
    let mut n = 0;
    while pos + 2 <= data.len() && n < 16 {
        let len = u16::from_be_bytes([data[pos], data[pos + 1]]) as usize;
        pos += 2;
        let end = (pos + len).min(data.len());
        handle_datagram(&data[pos..end], &store, &service_name, &full_name, &mut chan, case)?;
        pos = end;
        n += 1;
    }
    let q = APacket { id: 9, questions: vec![AQuestion { name: canary().name, qtype: 1, qclass: 1, unicast: false }], ..Default::default() };
    let qp = lib("build", || build(&q))?.map_err(|e| Fail::new("harness:build", e))?;
    let guard = store.read().map_err(|_| Fail::new("c14:lock-poisoned", "the record store lock is poisoned"))?;
    let answered = lib("build_reply", || build_reply(qp, &guard).map(|(p, _)| p.answers.len()))?;
    ensure!(matches!(answered, Some(n) if n >= 1), "c14:store-unusable", "after the datagrams the store answers the canary query with {:?}", answered);
    Ok(())
}

fn check_raw(b: &Bytes, case: &mut Case) -> Result<(), Fail> {
    fuzz_entry(b, case)
}

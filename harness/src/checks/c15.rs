//! C15 — advertised service instances are discovered faithfully
use super::util::*;
use crate::driver::CheckDef;
use crate::ensure;
use crate::runner::*;
use proptest::collection::vec;
use proptest::prelude::*;
use proptest::sample::select;
use simple_dns::rdata::{RData, PTR};
use simple_dns::{Name, Packet, ResourceRecord, CLASS};
use simple_mdns::verif::{instance_from_records, verif_add_response_to_resources, DomainResourceFilter, ResourceRecordManager};
use simple_mdns::InstanceInformation;
use std::collections::{BTreeMap, BTreeSet, HashMap};
use std::net::IpAddr;

#[derive(Debug, Clone, PartialEq, Eq, Hash, serde::Serialize, serde::Deserialize)]
pub struct Peer {
    pub name: String,
    pub ips: Vec<(bool, Bytes)>,
    pub ports: Vec<u16>,
    pub attrs: Vec<(String, Option<String>)>,
}

#[derive(Debug, Clone, PartialEq, Eq, Hash, serde::Serialize, serde::Deserialize)]
pub enum Ann {
    /// peer i announces itself
    Peer(u8),
    /// the discoverer hears its own announcement
    Own,
    /// a PTR record owned by the service name itself, pointing at peer i
    ServicePtr(u8),
    /// peer i's records under a foreign service whose name collides textually
    Foreign(u8, u8),
    /// peer i's records under a deeper name: a.<peer>.<service>
    Deeper(u8),
    /// peer i announces itself and the packet's additional section also carries records owned by
    /// names outside the watched service (a host name, another service's instance)
    PeerPlusForeign(u8, u8),
    /// peer i says goodbye: its records with TTL 0 (RFC 6762 10.1); it may advertise again later
    Goodbye(u8),
    /// one packet carrying, in this order: a host record under .local, a record of another service under
    /// _tcp/_udp.local, the service PTR, peer j's records and peer i's records (deep suffix staircases)
    Combined(u8, u8),
    /// peer i sends only part of its records (0: the TXT record, 1: the SRV records, 2: the address records),
    /// as in an answer to a specific question
    #[serde(alias = "Partial")]
    Partial(u8, u8),
    /// virtual time passes (1.001 s, 29.003 s or 100.007 s) on the discoverer's side
    Age(u8),
}

#[derive(Debug, Clone, PartialEq, Eq, Hash, serde::Serialize, serde::Deserialize)]
pub struct Disc {
    pub service: u8,
    pub peers: Vec<Peer>,
    pub seq: Vec<Ann>,
    pub channel: bool,
    pub ttl: u32,
    /// ingest through the async (tokio) copy of the receive loop's function instead of the sync one
    #[serde(default)]
    pub use_async: bool,
    /// peers' packets look like replies to a query (build_reply): address records travel in the additional section only
    #[serde(default)]
    pub reply_style: bool,
}

const SERVICES: [&str; 2] = ["_srv._tcp.local", "_my._udp.local"];
const FOREIGN: [[&str; 4]; 2] = [
    ["_srvx._tcp.local", "x_srv._tcp.local", "_srv._tcpx.local", "_tcp.local"],
    ["_myx._udp.local", "x_my._udp.local", "_my._udpx.local", "_udp.local"],
];
const OWN: &str = "self";

fn ip_of(v4: bool, b: &[u8]) -> IpAddr {
    if v4 {
        IpAddr::from([b[0], b[1], b[2], b[3]])
    } else {
        let a: [u8; 16] = b[..16].try_into().unwrap();
        IpAddr::from(a)
    }
}

fn attr_map(p: &Peer) -> HashMap<String, Option<String>> {
    let mut m = HashMap::new();
    for (k, v) in &p.attrs {
        m.entry(k.clone()).or_insert(v.clone());
    }
    m
}

fn info_of(p: &Peer, name: &str) -> InstanceInformation {
    let mut i = InstanceInformation::new(name.to_string());
    for (v4, b) in &p.ips {
        i = i.with_ip_address(ip_of(*v4, b));
    }
    for port in &p.ports {
        i = i.with_port(*port);
    }
    // The description of an instance is a value with public members: in half of the peers every attribute first gets a
    // placeholder value through the builder and its real value through the public `attributes` map afterwards (the key
    // set stays the same), and the last port is added through the public `ports` set. What is advertised is what the
    // value holds when it is advertised.
    let edited_later = (p.ips.len() + p.attrs.len()) % 2 == 1;
    for (k, v) in attr_map(p) {
        if edited_later {
            i = i.with_attribute(k.clone(), Some("placeholder".to_string()));
            i.attributes.insert(k, v);
        } else {
            i = i.with_attribute(k, v);
        }
    }
    if edited_later {
        if let Some(last) = p.ports.last() {
            i.ports.insert(*last);
        }
    }
    i
}

type Summary = (BTreeSet<IpAddr>, BTreeSet<u16>, BTreeMap<String, Option<String>>);

fn summary_of_info(i: &InstanceInformation) -> Summary {
    (i.ip_addresses.iter().copied().collect(), i.ports.iter().copied().collect(), i.attributes.iter().map(|(k, v)| (k.clone(), v.clone())).collect())
}

fn summary_of_peer(p: &Peer) -> Summary {
    (p.ips.iter().map(|(v4, b)| ip_of(*v4, b)).collect(), p.ports.iter().copied().collect(), attr_map(p).into_iter().collect())
}

const AGES_MS: [u64; 3] = [1_001, 29_003, 100_007];

/// what a set of a peer's records says: addresses from A / AAAA, ports from SRV, the peer's attributes if its TXT record is among them
fn summary_of_records<'a>(recs: impl Iterator<Item = &'a ResourceRecord<'static>>, p: &Peer) -> Summary {
    let mut s: Summary = Default::default();
    for r in recs {
        match &r.rdata {
            RData::A(a) => {
                s.0.insert(IpAddr::from(a.address.to_be_bytes()));
            }
            RData::AAAA(a) => {
                s.0.insert(IpAddr::from(a.address.to_be_bytes()));
            }
            RData::SRV(srv) => {
                s.1.insert(srv.port);
            }
            RData::TXT(_) => s.2 = attr_map(p).into_iter().collect(),
            _ => {}
        }
    }
    s
}

/// what an announcer puts on the wire for `info` under `owner` (mirrors ServiceDiscovery::announce)
fn announcement(info: InstanceInformation, owner: &str, ttl: u32) -> Result<Vec<u8>, Fail> {
    announcement_with(info, owner, ttl, &[])
}

thread_local! {
    /// a peer turns its description into records once (as ServiceDiscovery::new does) and announces
    /// those same records every time; a goodbye is the same records with TTL 0
    static RECORDS: std::cell::RefCell<HashMap<String, Vec<ResourceRecord<'static>>>> = std::cell::RefCell::new(HashMap::new());
    static REPLY_STYLE: std::cell::Cell<bool> = const { std::cell::Cell::new(false) };
}

/// the reply a peer holding `records` (plus the PTR of its service, as ServiceDiscovery::new registers it) gives to
/// the query that `query_service_instances` sends; None when the library produces no reply (not this property's claim)
fn real_reply(records: &[ResourceRecord<'static>], owner: &Name<'static>, ttl: u32) -> Result<Option<Vec<u8>>, Fail> {
    use simple_dns::{Question, TYPE};
    let labels = owner.get_labels();
    if labels.len() < 2 {
        return Ok(None);
    }
    let service: Name<'static> = Name::new_with_labels(&labels[1..]).into_owned();
    let mut store: ResourceRecordManager<'static> = ResourceRecordManager::new();
    lib("add_authoritative_resource", || {
        store.add_authoritative_resource(ResourceRecord::new(service.clone(), CLASS::IN, ttl, RData::PTR(PTR(owner.clone()))));
        for r in records {
            store.add_authoritative_resource(r.clone());
        }
    })?;
    let mut q = Packet::new_query(0);
    q.questions.push(Question::new(service.clone(), TYPE::SRV.into(), CLASS::IN.into(), false));
    q.questions.push(Question::new(service, TYPE::TXT.into(), CLASS::IN.into(), false));
    let qb = ser_compressed(&q)?;
    let out = lib("build_reply", || match Packet::parse(&qb) {
        Ok(query) => simple_mdns::verif::build_reply(query, &store).map(|(p, _)| p.build_bytes_vec_compressed()),
        Err(_) => None,
    })?;
    Ok(match out {
        Some(Ok(b)) => Some(b),
        _ => None,
    })
}

fn announcement_with(info: InstanceInformation, owner: &str, ttl: u32, foreign_additionals: &[&str]) -> Result<Vec<u8>, Fail> {
    let owner_name = Name::new(owner).map_err(|e| Fail::new("harness:name", format!("{}: {:?}", owner, e)))?.into_owned();
    let cached = RECORDS.with(|r| r.borrow().get(owner).cloned());
    let records = match cached {
        Some(mut recs) => {
            for r in recs.iter_mut() {
                r.ttl = ttl;
            }
            recs
        }
        None => {
            let recs = lib("into_records", || info.into_records(&owner_name, ttl))?.map_err(|e| Fail::new("c15:into-records", format!("{:?}", e)))?;
            let owned: Vec<ResourceRecord<'static>> = recs.into_iter().map(|r| r.into_owned()).collect();
            RECORDS.with(|r| r.borrow_mut().insert(owner.to_string(), owned.clone()));
            owned
        }
    };
    if REPLY_STYLE.with(|x| x.get()) && ttl > 0 && foreign_additionals.is_empty() && records.iter().any(|r| matches!(r.rdata, RData::SRV(_))) {
        // the peer answers the discoverer's own query (<service> SRV, <service> TXT) the way the responder
        // side of the library does: its store, build_reply, compressed
        if let Some(bytes) = real_reply(&records, &owner_name, ttl)? {
            return Ok(bytes);
        }
    }
    let mut p = Packet::new_reply(1);
    for r in &records {
        if matches!(r.rdata, RData::A(_) | RData::AAAA(_)) {
            p.additional_records.push(r.clone());
            if REPLY_STYLE.with(|x| x.get()) {
                // as in a reply to a PTR / SRV query: the addresses are additional records only
                continue;
            }
        }
        p.answers.push(r.clone());
    }
    for (k, f) in foreign_additionals.iter().enumerate() {
        let fname = Name::new(f).map_err(|e| Fail::new("harness:name", format!("{}: {:?}", f, e)))?.into_owned();
        p.additional_records.push(ResourceRecord::new(fname.clone(), CLASS::IN, ttl, RData::A(simple_dns::rdata::A { address: 0xC0A86300 + k as u32 })));
        p.additional_records.push(ResourceRecord::new(
            fname.clone(),
            CLASS::IN,
            ttl,
            RData::SRV(simple_dns::rdata::SRV { priority: 0, weight: 0, port: 9999, target: fname.clone() }),
        ));
        p.additional_records.push(ResourceRecord::new(fname, CLASS::IN, ttl, RData::TXT(simple_dns::rdata::TXT::new().with_string("foreign=1").unwrap())));
    }
    ser_compressed(&p)
}

fn check(d: &Disc, case: &mut Case) -> Result<(), Fail> {
    RECORDS.with(|r| r.borrow_mut().clear());
    REPLY_STYLE.with(|x| x.set(d.reply_style));
    if d.reply_style {
        case.class("addresses-in-additional-section-only");
    }
    let service = SERVICES[d.service as usize % 2];
    let foreign = FOREIGN[d.service as usize % 2];
    let service_name = Name::new(service).unwrap().into_owned();
    let own_full = Name::new(&format!("{}.{}", OWN, service)).unwrap().into_owned();
    let mut store: ResourceRecordManager<'static> = ResourceRecordManager::new();
    // the store as ServiceDiscovery::new_with_scope leaves it: PTR service -> own instance, plus the
    // discoverer's own records, all authoritative
    {
        let own = InstanceInformation::new(OWN.to_string()).with_ip_address(IpAddr::from([192, 168, 1, 2])).with_port(4000);
        lib("add_authoritative_resource", || {
            store.add_authoritative_resource(ResourceRecord::new(service_name.clone(), CLASS::IN, d.ttl, RData::PTR(PTR(own_full.clone()))))
        })?;
        let recs = lib("into_records", || own.into_records(&own_full, d.ttl))?.map_err(|e| Fail::new("c15:into-records", format!("{:?}", e)))?;
        for r in recs {
            lib("add_authoritative_resource", || store.add_authoritative_resource(r))?;
        }
    }
    let (tx, rx) = std::sync::mpsc::channel::<InstanceInformation>();
    let mut chan = if d.channel { Some(tx) } else { None };
    let (atx, mut arx) = tokio::sync::mpsc::channel::<InstanceInformation>(64);
    let mut achan = if d.channel { Some(atx) } else { None };
    let rt = tokio::runtime::Builder::new_current_thread().build().map_err(|e| Fail::new("harness:tokio", e.to_string()))?;
    if d.use_async {
        case.class("async-ingestion");
    }
    if d.peers.is_empty() {
        return Ok(());
    }
    // expected: owner (full name text) -> (instance name or None for deeper names, summary)
    let mut expected: BTreeMap<String, (Option<String>, Summary)> = BTreeMap::new();
    let mut noise = 0;
    // owner -> (instance name, peer index, record index -> virtual reception time in ms)
    let mut seen: BTreeMap<String, (Option<String>, usize, BTreeMap<usize, u64>)> = BTreeMap::new();
    let mut vnow: u64 = 0;
    let mut timed = false;
    // instance names of peers some of whose records have lapsed (goodbye, or TTL elapsed) since their last complete
    // announcement: when a lapsed record stops being reported is C20's statement, so for these peers only "nothing
    // beyond what the peer advertised, nothing missing of what is certainly alive" is claimed
    let mut lapsed: BTreeSet<String> = BTreeSet::new();
    for ann in &d.seq {
        // bookkeeping of receptions for the time-aware oracle
        {
            let mut all_of = |owner: String, name: Option<String>, pi: usize, seen: &mut BTreeMap<String, (Option<String>, usize, BTreeMap<usize, u64>)>| {
                let n = RECORDS.with(|r| r.borrow().get(&owner).map(|v| v.len())).unwrap_or(0);
                let e = seen.entry(owner).or_insert((name, pi, BTreeMap::new()));
                for k in 0..n {
                    e.2.insert(k, vnow);
                }
            };
            match ann {
                Ann::Peer(i) | Ann::PeerPlusForeign(i, _) => {
                    let pi = *i as usize % d.peers.len();
                    let p = &d.peers[pi];
                    let owner = format!("{}.{}", p.name, service);
                    let _ = announcement(info_of(p, &p.name), &owner, d.ttl)?;
                    all_of(owner, Some(p.name.clone()), pi, &mut seen);
                }
                Ann::Combined(i, j) => {
                    for x in [j, i] {
                        let pi = *x as usize % d.peers.len();
                        let p = &d.peers[pi];
                        let owner = format!("{}.{}", p.name, service);
                        let _ = announcement(info_of(p, &p.name), &owner, d.ttl)?;
                        all_of(owner, Some(p.name.clone()), pi, &mut seen);
                    }
                }
                Ann::Deeper(i) => {
                    let pi = *i as usize % d.peers.len();
                    let p = &d.peers[pi];
                    let owner = format!("a.{}.{}", p.name, service);
                    let _ = announcement(info_of(p, "a"), &owner, d.ttl)?;
                    all_of(owner, None, pi, &mut seen);
                }
                Ann::Goodbye(i) => {
                    let p = &d.peers[*i as usize % d.peers.len()];
                    seen.remove(&format!("{}.{}", p.name, service));
                }
                _ => {}
            }
        }
        if let Ann::Age(k) = ann {
            let ms = AGES_MS[*k as usize % 3];
            lib("verif_age", || store.verif_age(std::time::Duration::from_millis(ms)))?;
            vnow += ms;
            timed = true;
            continue;
        }
        if let Ann::Partial(i, which) = ann {
            let pi = *i as usize % d.peers.len();
            let p = &d.peers[pi];
            let owner = format!("{}.{}", p.name, service);
            let _ = announcement(info_of(p, &p.name), &owner, d.ttl)?;
            let recs = RECORDS.with(|r| r.borrow().get(&owner).cloned()).unwrap_or_default();
            let pick: Vec<usize> = recs
                .iter()
                .enumerate()
                .filter(|(_, r)| match which % 3 {
                    0 => matches!(r.rdata, RData::TXT(_)),
                    1 => matches!(r.rdata, RData::SRV(_)),
                    _ => matches!(r.rdata, RData::A(_) | RData::AAAA(_)),
                })
                .map(|(k, _)| k)
                .collect();
            if pick.is_empty() {
                continue;
            }
            timed = true;
            case.class("partial-announcement");
            let mut pk = Packet::new_reply(1);
            for k in &pick {
                let mut r = recs[*k].clone();
                r.ttl = d.ttl;
                pk.answers.push(r);
            }
            let e = seen.entry(owner).or_insert((Some(p.name.clone()), pi, BTreeMap::new()));
            for k in &pick {
                e.2.insert(*k, vnow);
            }
            let bytes = ser_compressed(&pk)?;
            let packet = parse(&bytes)?.map_err(|e| Fail::new("c15:unparseable", format!("an announcement does not parse: {:?}", e)))?;
            if d.use_async {
                lib("add_response_to_resources (async)", || {
                    rt.block_on(simple_mdns::verif::verif_add_response_to_resources_async(packet, &service_name, &own_full, &mut store, &mut achan))
                })?;
            } else {
                lib("add_response_to_resources", || verif_add_response_to_resources(packet, &service_name, &own_full, &mut store, &mut chan))?;
            }
            if d.channel {
                let mut msgs: Vec<InstanceInformation> = rx.try_iter().collect();
                while let Ok(m) = arx.try_recv() {
                    msgs.push(m);
                }
                let sum = summary_of_records(pick.iter().map(|k| &recs[*k]), p);
                ensure!(msgs.len() == 1, "c15:channel-count", "{:?}: {} discovery messages delivered", ann, msgs.len());
                ensure!(msgs[0].unescaped_instance_name() == p.name, "c15:channel-name", "{:?}: message names {:?}, announced {:?}", ann, msgs[0].unescaped_instance_name(), p.name);
                ensure!(summary_of_info(&msgs[0]) == sum, "c15:channel-content", "{:?}: message {:?} differs from the records sent {:?}", ann, summary_of_info(&msgs[0]), sum);
            }
            continue;
        }
        let (bytes, expect_msg): (Vec<u8>, Option<(Option<String>, Summary)>) = match ann {
            Ann::Peer(i) => {
                let p = &d.peers[*i as usize % d.peers.len()];
                let owner = format!("{}.{}", p.name, service);
                let e = (Some(p.name.clone()), summary_of_peer(p));
                lapsed.remove(&p.name);
                expected.insert(owner.clone(), e.clone());
                (announcement(info_of(p, &p.name), &owner, d.ttl)?, Some(e))
            }
            Ann::PeerPlusForeign(i, w) => {
                noise += 1;
                let p = &d.peers[*i as usize % d.peers.len()];
                let owner = format!("{}.{}", p.name, service);
                let e = (Some(p.name.clone()), summary_of_peer(p));
                lapsed.remove(&p.name);
                expected.insert(owner.clone(), e.clone());
                let hosts = [format!("{}.local", p.name), format!("{}.{}", p.name, foreign[*w as usize % 4]), service.to_string()];
                let hs: Vec<&str> = hosts.iter().map(|s| s.as_str()).take(1 + (*w as usize % 3)).collect();
                (announcement_with(info_of(p, &p.name), &owner, d.ttl, &hs)?, Some(e))
            }
            Ann::Combined(i, j) => {
                noise += 1;
                let pi = &d.peers[*i as usize % d.peers.len()];
                let pj = &d.peers[*j as usize % d.peers.len()];
                let mut pk = Packet::new_reply(1);
                let host = Name::new("printer.local").unwrap().into_owned();
                pk.answers.push(ResourceRecord::new(host, CLASS::IN, d.ttl, RData::A(simple_dns::rdata::A { address: 0x0a0a0a0a })));
                let other = Name::new(&format!("x._other.{}", service.splitn(2, '.').nth(1).unwrap())).unwrap().into_owned();
                pk.answers.push(ResourceRecord::new(other, CLASS::IN, d.ttl, RData::TXT(simple_dns::rdata::TXT::new().with_string("o=1").unwrap())));
                let mut msgs_expected = None;
                for p in [pj, pi] {
                    let owner = format!("{}.{}", p.name, service);
                    let owner_name = Name::new(&owner).unwrap().into_owned();
                    pk.answers.push(ResourceRecord::new(service_name.clone(), CLASS::IN, d.ttl, RData::PTR(PTR(owner_name.clone()))));
                    // the peer's fixed record set (created on first use)
                    let _ = announcement(info_of(p, &p.name), &owner, d.ttl)?;
                    let recs = RECORDS.with(|r| r.borrow().get(&owner).cloned()).unwrap_or_default();
                    for mut r in recs {
                        r.ttl = d.ttl;
                        pk.answers.push(r);
                    }
                    lapsed.remove(&p.name);
                    expected.insert(owner, (Some(p.name.clone()), summary_of_peer(p)));
                    msgs_expected = Some((None, summary_of_peer(p)));
                }
                (ser_compressed(&pk)?, if pi.name == pj.name { msgs_expected } else { Some((None, (Default::default(), Default::default(), Default::default()))) })
            }
            Ann::Goodbye(i) => {
                noise += 1;
                let p = &d.peers[*i as usize % d.peers.len()];
                let owner = format!("{}.{}", p.name, service);
                // TTL 0: the records are gone at once; nothing needs to be reported for this peer until it advertises again
                expected.remove(&owner);
                lapsed.insert(p.name.clone());
                (announcement(info_of(p, &p.name), &owner, 0)?, Some((None, summary_of_peer(p))))
            }
            Ann::Own => {
                noise += 1;
                let p = &d.peers[0];
                (announcement(info_of(p, OWN), &format!("{}.{}", OWN, service), d.ttl)?, None)
            }
            Ann::ServicePtr(i) => {
                noise += 1;
                let p = &d.peers[*i as usize % d.peers.len()];
                let target = Name::new(&format!("{}.{}", p.name, service)).unwrap().into_owned();
                let mut pk = Packet::new_reply(1);
                pk.answers.push(ResourceRecord::new(service_name.clone(), CLASS::IN, d.ttl, RData::PTR(PTR(target))));
                (ser_compressed(&pk)?, None)
            }
            Ann::Foreign(w, i) => {
                noise += 1;
                let p = &d.peers[*i as usize % d.peers.len()];
                (announcement(info_of(p, &p.name), &format!("{}.{}", p.name, foreign[*w as usize % 4]), d.ttl)?, None)
            }
            Ann::Deeper(i) => {
                noise += 1;
                let p = &d.peers[*i as usize % d.peers.len()];
                let owner = format!("a.{}.{}", p.name, service);
                let e = (None, summary_of_peer(p));
                expected.insert(owner.clone(), e.clone());
                (announcement(info_of(p, "a"), &owner, d.ttl)?, Some(e))
            }
            Ann::Partial(..) | Ann::Age(_) => continue,
        };
        let packet = parse(&bytes)?.map_err(|e| Fail::new("c15:unparseable", format!("an announcement does not parse: {:?}", e)))?;
        if d.use_async {
            lib("add_response_to_resources (async)", || {
                rt.block_on(simple_mdns::verif::verif_add_response_to_resources_async(packet, &service_name, &own_full, &mut store, &mut achan))
            })?;
        } else {
            lib("add_response_to_resources", || verif_add_response_to_resources(packet, &service_name, &own_full, &mut store, &mut chan))?;
        }
        if d.channel {
            let mut msgs: Vec<InstanceInformation> = rx.try_iter().collect();
            while let Ok(m) = arx.try_recv() {
                msgs.push(m);
            }
            match expect_msg {
                None => ensure!(msgs.is_empty(), "c15:channel-noise", "{:?}: a discovery message {:?} was delivered for records that must never be reported", ann, msgs),
                Some(_) if matches!(ann, Ann::Combined(..)) => {
                    // one packet, several owners: the statement does not say how the channel groups them
                }
                Some((name, sum)) => {
                    ensure!(msgs.len() == 1, "c15:channel-count", "{:?}: {} discovery messages delivered", ann, msgs.len());
                    if let Some(n) = name {
                        ensure!(msgs[0].unescaped_instance_name() == n, "c15:channel-name", "{:?}: message names {:?}, announced {:?}", ann, msgs[0].unescaped_instance_name(), n);
                        ensure!(summary_of_info(&msgs[0]) == sum, "c15:channel-content", "{:?}: message {:?} differs from the announced instance {:?}", ann, summary_of_info(&msgs[0]), sum);
                    }
                }
            }
        }
    }
    // read back exactly as get_known_services does
    let reported: Vec<InstanceInformation> = lib("get_known_services", || {
        store.get_domain_resources(&service_name, DomainResourceFilter::cached()).filter_map(|group| instance_from_records(&service_name, group)).collect()
    })?;
    // with partial announcements or time in play, what must be reported follows from the receptions: a record counts
    // while certainly younger than its TTL; a case with a record within half a second of its expiry makes no claim
    if timed {
        case.class("time-or-partial");
        let ttl_ms = d.ttl as u64 * 1000;
        let mut fresh: BTreeMap<String, (Option<String>, Summary)> = BTreeMap::new();
        for (owner, (name, pi, recs_seen)) in &seen {
            let recs = RECORDS.with(|r| r.borrow().get(owner).cloned()).unwrap_or_default();
            let mut alive = Vec::new();
            for (k, t) in recs_seen {
                let age = vnow - t;
                if age + 500 < ttl_ms {
                    alive.push(*k);
                } else if age <= ttl_ms + 500 {
                    case.class("undetermined:at-expiry");
                    return Ok(());
                }
            }
            if alive.len() < recs_seen.len() {
                case.class("some-records-expired");
                match name {
                    Some(n) => lapsed.insert(n.clone()),
                    // a deeper owner a.<peer>.<service> is reported under the name "a.<peer>"
                    None => lapsed.insert(owner.strip_suffix(&format!(".{}", service)).unwrap_or(owner).to_string()),
                };
            }
            if alive.is_empty() {
                // nothing left of this owner: it is not reported at all
                case.class("owner-expired");
                continue;
            }
            fresh.insert(owner.clone(), (name.clone(), summary_of_records(alive.iter().map(|k| &recs[*k]), &d.peers[*pi])));
        }
        expected = fresh;
    }
    let peers_announced = expected.values().filter(|e| e.0.is_some()).count();
    case.nontrivial = peers_announced >= 2 || noise >= 1 || expected.values().any(|(_, s)| s.0.len() >= 2 || s.1.len() >= 2);
    if noise > 0 {
        case.class("with-noise");
    }
    if expected.values().any(|(_, s)| s.2.is_empty()) {
        case.class("empty-attribute-map");
    }
    // completeness
    for (owner, (name, sum)) in &expected {
        if let Some(n) = name {
            let hits: Vec<&InstanceInformation> = reported.iter().filter(|r| r.unescaped_instance_name() == *n).collect();
            ensure!(hits.len() == 1, "c15:not-reported-once", "instance {:?} ({}) is reported {} times; reported: {:?}", n, owner, hits.len(), reported.iter().map(|r| r.unescaped_instance_name()).collect::<Vec<_>>());
            let got = summary_of_info(hits[0]);
            if lapsed.contains(n) {
                // everything certainly alive is there (what has lapsed may or may not still be shown: C20 decides)
                let covers = sum.0.is_subset(&got.0) && sum.1.is_subset(&got.1) && (sum.2.is_empty() || got.2 == sum.2);
                ensure!(covers, "c15:alive-records-missing", "instance {:?}: discovered {:?}, certainly alive {:?}", n, got, sum);
                continue;
            }
            if got != *sum {
                let sig = if got.0 != sum.0 {
                    "c15:addresses-differ"
                } else if got.1 != sum.1 {
                    "c15:ports-differ"
                } else {
                    "c15:attributes-differ"
                };
                return Err(Fail::new(sig, format!("instance {:?}: discovered {:?}, advertised {:?}", n, got, sum)));
            }
        }
    }
    // soundness: every reported instance is one expected owner
    let firm_reported = reported.iter().filter(|r| !lapsed.contains(&r.unescaped_instance_name())).count();
    let firm_expected = expected
        .iter()
        .filter(|(owner, (n, _))| {
            let shown = n.clone().unwrap_or_else(|| owner.strip_suffix(&format!(".{}", service)).unwrap_or(owner).to_string());
            !lapsed.contains(&shown)
        })
        .count();
    // (a deeper owner a.<peer>.<service> is reported under the instance name "a": if a peer called "a" has lapsed
    // records the two cannot be told apart by name and the count makes no claim)
    let a_is_ambiguous = lapsed.contains("a") && expected.values().any(|(n, _)| n.is_none());
    ensure!(a_is_ambiguous || firm_reported == firm_expected, "c15:extra-instances", "{} instances reported, {} owners advertised under the service: reported {:?}", firm_reported, firm_expected, reported.iter().map(|r| (r.unescaped_instance_name(), summary_of_info(r))).collect::<Vec<_>>());
    for r in &reported {
        let s = summary_of_info(r);
        let rname = r.unescaped_instance_name();
        if lapsed.contains(&rname) {
            // a peer with lapsed records: nothing beyond what that peer advertised
            let peer_name = rname.strip_prefix("a.").unwrap_or(&rname);
            let full = d.peers.iter().find(|p| p.name == peer_name).map(summary_of_peer);
            let within = full.map(|f| s.0.is_subset(&f.0) && s.1.is_subset(&f.1) && (s.2.is_empty() || s.2 == f.2)).unwrap_or(false);
            ensure!(within || expected.values().any(|(_, e)| *e == s), "c15:mixed-instance", "reported instance {:?} {:?} holds something its peer never advertised", rname, s);
            ensure!(rname != OWN, "c15:own-reported", "the discoverer's own instance is reported");
            continue;
        }
        ensure!(expected.values().any(|(_, e)| *e == s), "c15:mixed-instance", "reported instance {:?} {:?} is not the record set of any single advertised owner", r.unescaped_instance_name(), s);
        ensure!(r.unescaped_instance_name() != OWN, "c15:own-reported", "the discoverer's own instance is reported");
    }
    Ok(())
}

fn peer_names() -> Vec<&'static str> {
    vec!["printer", "p", "pa", "peer-1", "b", "ba", "host_2", "web", "Printer", "a"]
}

fn attr_strategy() -> BoxedStrategy<Vec<(String, Option<String>)>> {
    let ordinary = (
        prop_oneof![4 => "[a-z]{1,5}", 2 => select(vec!["k;", "path", "Path", "PATH", "é", "K", "k", "PaperSize", "papersize"]).prop_map(|s| s.to_string()), 1 => "[ -<>-~]{1,4}"],
        prop_oneof![1 => Just(None), 1 => Just(Some(String::new())), 3 => "[a-z0-9=]{1,6}".prop_map(Some), 1 => "[ -~]{1,6}".prop_map(Some)],
    );
    // entries at the upper bound of the domain: key[=value] of 253..=255 bytes
    let boundary = (253usize..=255, "[a-z]{1,5}", any::<bool>()).prop_map(|(total, key, with_value)| {
        if with_value {
            let v = "v".repeat(total - key.len() - 1);
            (key, Some(v))
        } else {
            (format!("{}{}", key, "k".repeat(total - key.len())), None)
        }
    });
    vec(prop_oneof![12 => ordinary, 1 => boundary], 0..4).boxed()
}

fn strategy(_t: Tier) -> BoxedStrategy<Disc> {
    let many_ips = vec((any::<bool>(), vec(any::<u8>(), 16).prop_map(Bytes)), 18..40);
    let many_ports = vec(crate::gen::u16b(), 5..12);
    let big_peer = (many_ips, many_ports, attr_strategy());
    let peer = (
        vec(
            prop_oneof![
                3 => (any::<bool>(), vec(any::<u8>(), 16).prop_map(Bytes)),
                // special-purpose addresses: unspecified, loopback, link-local, IPv4-mapped / -compatible IPv6,
                // and the IPv4 address that a mapped one would collapse into
                2 => select(vec![
                    (true, vec![10, 0, 0, 5, 0, 0, 0, 0, 0, 0, 0, 0, 0, 0, 0, 0]),
                    (false, vec![0, 0, 0, 0, 0, 0, 0, 0, 0, 0, 0xff, 0xff, 10, 0, 0, 5]),
                    (false, vec![0, 0, 0, 0, 0, 0, 0, 0, 0, 0, 0, 0, 10, 0, 0, 5]),
                    (false, vec![0, 0, 0, 0, 0, 0, 0, 0, 0, 0, 0xff, 0xff, 192, 168, 1, 9]),
                    (false, vec![0; 16]),
                    (false, vec![0, 0, 0, 0, 0, 0, 0, 0, 0, 0, 0, 0, 0, 0, 0, 1]),
                    (false, vec![0xfe, 0x80, 0, 0, 0, 0, 0, 0, 0, 0, 0, 0, 0, 0, 0, 1]),
                    (false, vec![0xff, 0x02, 0, 0, 0, 0, 0, 0, 0, 0, 0, 0, 0, 0, 0, 0xfb]),
                    (true, vec![0; 16]),
                    (true, vec![255; 16]),
                    (true, vec![127, 0, 0, 1, 0, 0, 0, 0, 0, 0, 0, 0, 0, 0, 0, 0]),
                    (true, vec![224, 0, 0, 251, 0, 0, 0, 0, 0, 0, 0, 0, 0, 0, 0, 0]),
                ])
                .prop_map(|(v4, b)| (v4, Bytes(b))),
            ],
            0..=4,
        ),
        vec(prop_oneof![Just(80u16), Just(8080), Just(0u16), Just(65535u16), any::<u16>()], 0..=4),
        attr_strategy(),
    );
    let ann = prop_oneof![
        8 => (0u8..5).prop_map(Ann::Peer),
        1 => Just(Ann::Own),
        1 => (0u8..5).prop_map(Ann::ServicePtr),
        2 => (0u8..4, 0u8..5).prop_map(|(w, i)| Ann::Foreign(w, i)),
        3 => (0u8..5).prop_map(Ann::Deeper),
        3 => (0u8..5, 0u8..12).prop_map(|(i, w)| Ann::PeerPlusForeign(i, w)),
        2 => (0u8..5).prop_map(Ann::Goodbye),
        2 => (0u8..5, 0u8..5).prop_map(|(i, j)| Ann::Combined(i, j)),
        2 => (0u8..5, 0u8..3).prop_map(|(i, w)| Ann::Partial(i, w)),
        2 => (0u8..3).prop_map(Ann::Age),
    ];
    (0u8..2, vec(prop_oneof![12 => peer.boxed(), 1 => big_peer.boxed()], 1..=5), vec(ann, 1..10), any::<bool>(), select(vec![60u32, 120, 4500]), any::<u8>(), proptest::bool::weighted(0.35))
        .prop_map(|(service, peers, seq, channel, ttl, rot, use_async)| {
            let names = peer_names();
            let peers = peers
                .into_iter()
                .enumerate()
                .map(|(i, (ips, ports, attrs))| Peer { name: names[(i + rot as usize) % names.len()].to_string(), ips, ports, attrs })
                .collect();
            Disc { service, peers, seq, channel, ttl, use_async, reply_style: rot >= 170 }
        })
        .boxed()
}

// ---- escape / unescape

fn escape_strategy(_t: Tier) -> BoxedStrategy<String> {
    prop_oneof![
        3 => vec(select(vec!['a', '.', '\\', 'é', ' ', 'Z', '😀']), 0..12).prop_map(|v| v.into_iter().collect::<String>()),
        1 => "\\PC{0,16}",
    ]
    .boxed()
}

fn check_escape(s: &String, case: &mut Case) -> Result<(), Fail> {
    case.nontrivial = s.contains('.') || s.contains('\\');
    let escaped = lib("escaped_instance_name", || InstanceInformation::new(s.clone()).escaped_instance_name())?;
    let back = lib("unescaped_instance_name", || InstanceInformation::new(escaped.clone()).unescaped_instance_name())?;
    ensure!(back == *s, "c15:escape-roundtrip", "unescape(escape({:?})) = {:?} (escaped: {:?})", s, back, escaped);
    // every '.' and '\' of the original is preceded by a backslash in the escaped form
    let mut it = escaped.chars();
    while let Some(c) = it.next() {
        if c == '\\' {
            ensure!(it.next().is_some(), "c15:escape-dangling", "escaped form {:?} ends with a dangling backslash", escaped);
        } else {
            ensure!(c != '.', "c15:escape-dot", "escaped form {:?} contains an unescaped dot", escaped);
        }
    }
    Ok(())
}

pub fn def() -> CheckDef {
    CheckDef {
        id: "C15",
        rule: "model-based: a watched service (_srv._tcp.local or _my._udp.local), a discoverer named 'self', 1..5 peers with distinct valid single-label names, 0..4 IPv4/IPv6 addresses, 0..4 ports and attribute lists (values absent / empty / non-empty), and sequences of 1..9 announcements: peers (repeated), the discoverer's own instance, PTR records owned by the service name, the peers' records under textually colliding foreign services (_srvx._tcp.local, x_srv._tcp.local, _srv._tcpx.local, _tcp.local) and under deeper names (a.<peer>.<service>), and peer announcements whose additional section also carries A/SRV/TXT records owned by names outside the service (a host name, another service's instance, the service name itself), goodbyes (TTL 0) after which the peer may advertise again, and combined packets (host record, other service, service PTR, two peers in one compressed message). One peer in thirteen has 18..39 addresses and 5..11 ports. Sequences also contain partial announcements (only the TXT record, only the SRV records or only the address records of a peer, as in an answer to a specific question) and steps of virtual time (1.001 s, 29.003 s, 100.007 s through the ageing hook, against TTLs of 60 / 120 / 4500 s): what must be reported is then derived from the receptions (a record counts while certainly younger than its TTL, an owner with no live record is not reported, a case with a record within 0.5 s of its expiry makes no claim). Each announcement is assembled like ServiceDiscovery::announce (into_records, answers + address records as additionals) or, in a third of the cases, like a reply made by build_reply (address records in the additional section only), serialised with build_bytes_vec_compressed, parsed, ingested with the receive loop's add_response_to_resources — the sync one, or (35% of the cases) the async-tokio copy driven by a current-thread runtime — with and without an on_discovery channel, and read back exactly as get_known_services does. Oracle: every advertised peer is reported exactly once with exactly its name, address set, port set and attribute map; the number of reported instances equals the number of advertised strict-subdomain owners and each equals one owner's record set; nothing for the discoverer, the service name or foreign services; channel messages equal the instance just announced and none is delivered for records that must not be reported. Separately, unescape(escape(s)) == s for generated strings biased to '.' and '\\\\'. Non-trivial = >= 2 peers, a multi-member set, or noise present",
        assumptions: vec![
            "driven through simple_mdns::verif (hook): ResourceRecordManager, add_response_to_resources of the sync service discovery, InstanceInformation::from_records",
            "for deeper names only the record sets are compared (the statement does not define their instance name)",
            "each peer turns its description into records once and announces those same records every time (as ServiceDiscovery does); TXT::try_from(HashMap) orders strings by map iteration, so re-deriving the records per announcement would create distinct TXT records",
        ],
        sections: vec![
            Box::new(PropSection { name: "discovery", rule: "advertise -> wire -> ingest -> report", strategy, cases: (150_000, 1_500_000), check }),
            Box::new(PropSection { name: "escape", rule: "escape / unescape", strategy: escape_strategy, cases: (200_000, 1_000_000), check: check_escape }),
        ],
    }
}

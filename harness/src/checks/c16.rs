//! C16 — owned copies equal originals; equality and hashing agree
use super::util::*;
use crate::bridge::*;
use crate::driver::CheckDef;
use crate::ensure;
use crate::gen;
use crate::refmodel::*;
use crate::runner::*;
use proptest::collection::vec;
use proptest::prelude::*;
use simple_dns::{Packet, ResourceRecord};
use simple_mdns::InstanceInformation;
use std::collections::hash_map::DefaultHasher;
use std::hash::{Hash, Hasher};
use std::net::IpAddr;

fn h<T: Hash>(t: &T) -> u64 {
    let mut s = DefaultHasher::new();
    t.hash(&mut s);
    s.finish()
}

/// the serialised bytes, or a marker when the library refuses to serialise the value: the statement compares a copy
/// with its original (both are then refused alike), it does not promise that every value can be serialised
fn ser_or_refused(p: &Packet, compressed: bool) -> Result<Vec<u8>, Fail> {
    match if compressed { ser_compressed(p) } else { ser_plain(p) } {
        Ok(b) => Ok(b),
        Err(f) if f.sig.starts_with("ser:") => Ok(b"\0refused-by-the-library".to_vec()),
        Err(f) => Err(f),
    }
}

fn wire_of_record(r: &ResourceRecord, compressed: bool) -> Result<Vec<u8>, Fail> {
    let mut p = Packet::new_reply(1);
    p.answers.push(r.clone());
    // written twice so that the compressed form contains pointers
    p.additional_records.push(r.clone());
    if compressed { ser_or_refused(&p, true) } else { ser_or_refused(&p, false) }
}

/// `copy` = true (b is a clone / owned copy of a): they must be equal, hash equally, observe equally and serialise to the
/// same bytes. `copy` = false (two values obtained along different paths): only "equal implies equal hashes" is claimed.
fn same_record(a: &ResourceRecord, b: &ResourceRecord, what: &str) -> Result<(), Fail> {
    same_record_as(a, b, what, true)
}

fn same_record_as(a: &ResourceRecord, b: &ResourceRecord, what: &str, copy: bool) -> Result<(), Fail> {
    let eq = lib("ResourceRecord::eq", || a == b)?;
    if copy {
        ensure!(eq, "c16:not-equal", "{}: records that should be equal compare different: {:?} vs {:?}", what, observe_record(a), observe_record(b));
    }
    if eq {
        ensure!(h(a) == h(b), "c16:hash-record", "{}: equal records hash differently", what);
    }
    let rd_eq = lib("RData::eq", || a.rdata == b.rdata)?;
    if copy {
        ensure!(rd_eq, "c16:not-equal", "{}: rdata differ", what);
    }
    if rd_eq {
        ensure!(h(&a.rdata) == h(&b.rdata), "c16:hash-rdata", "{}: equal rdata hash differently", what);
    }
    let n_eq = lib("Name::eq", || a.name == b.name)?;
    if copy {
        ensure!(n_eq, "c16:not-equal", "{}: owner names differ", what);
    }
    if n_eq {
        ensure!(h(&a.name) == h(&b.name), "c16:hash-name", "{}: equal names hash differently", what);
    }
    for (x, y) in a.name.get_labels().iter().zip(b.name.get_labels()) {
        if copy {
            ensure!(x == y, "c16:not-equal", "{}: labels differ", what);
        }
        if x == y {
            ensure!(h(x) == h(y), "c16:hash-label", "{}: equal labels hash differently", what);
        }
    }
    if copy {
        ensure!(observe_record(a) == observe_record(b), "c16:observation", "{}: {:?} vs {:?}", what, observe_record(a), observe_record(b));
        for compressed in [false, true] {
            ensure!(wire_of_record(a, compressed)? == wire_of_record(b, compressed)?, "c16:bytes", "{}: a copy serialises differently from its original (compressed={})", what, compressed);
        }
    }
    Ok(())
}

fn rebuild_owned<'a>(p: &Packet<'a>) -> Packet<'static> {
    let mut n = if p.has_flags(simple_dns::PacketFlag::RESPONSE) { Packet::new_reply(p.id()) } else { Packet::new_query(p.id()) };
    for (_, fl) in FLAG_TABLE {
        if p.has_flags(fl) {
            n.set_flags(fl);
        }
    }
    *n.opcode_mut() = p.opcode();
    *n.rcode_mut() = p.rcode();
    *n.opt_mut() = p.opt().cloned().map(|o| o.into_owned());
    n.questions = p.questions.iter().cloned().map(|q| q.into_owned()).collect();
    n.answers = p.answers.iter().cloned().map(|r| r.into_owned()).collect();
    n.name_servers = p.name_servers.iter().cloned().map(|r| r.into_owned()).collect();
    n.additional_records = p.additional_records.iter().cloned().map(|r| r.into_owned()).collect();
    n
}

fn check_copies(s: &gen::Sharing, case: &mut Case) -> Result<(), Fail> {
    let ap = s.assemble();
    super::c02::classes_of(&ap, case);
    case.nontrivial = ap.records().any(|r| r.name.0.len() >= 2 || matches!(&r.rdata, ARData::Typed { fields, .. } if fields.iter().any(|f| matches!(f, Val::Bytes(_) | Val::Strs(_) | Val::Pairs(_) | Val::Windows(_) | Val::Name(_)))));
    // normally the packet is built through the public constructors; should one of them refuse a value of the
    // generated domain, the values are obtained by parsing the reference encoding instead (received data is as much
    // a subject of the statement as built data)
    let refwire = encode_message(&ap, &EncOpts::plain());
    let built_opt: Option<Packet> = lib("build", || build(&ap))?.ok();
    let from_wire: Option<Packet> = if built_opt.is_none() {
        case.class("constructor-refused:reference-encoding-parsed-instead");
        match parse(&refwire)? {
            Ok(p) => Some(p),
            Err(_) => return Ok(()),
        }
    } else {
        None
    };
    let base: &Packet = built_opt.as_ref().or(from_wire.as_ref()).unwrap();
    let u = ser_or_refused(base, false)?;
    let c = ser_or_refused(base, true)?;
    // values borrowed from two different receive buffers
    // (whether the library reads its own output back is C02's / C03's business: no claim here if it does not)
    let (Ok(pu), Ok(pc)) = (parse(&u)?, parse(&c)?) else {
        case.class("own-output-not-parsed:no-claim");
        return Ok(());
    };
    for (name, p) in [("built", base), ("parsed-plain", &pu), ("parsed-compressed", &pc)] {
        // clone and owned rebuild serialise like the value they were made from
        let (u, c) = (ser_or_refused(p, false)?, ser_or_refused(p, true)?);
        let cl = lib("Packet::clone", || p.clone())?;
        ensure!(ser_or_refused(&cl, false)? == u && ser_or_refused(&cl, true)? == c, "c16:clone-bytes", "{}: clone of the packet serialises differently", name);
        let ow = lib("into_owned", || rebuild_owned(p))?;
        ensure!(ser_or_refused(&ow, false)? == u, "c16:owned-bytes", "{}: packet rebuilt from owned parts serialises differently (plain)", name);
        ensure!(ser_or_refused(&ow, true)? == c, "c16:owned-bytes", "{}: packet rebuilt from owned parts serialises differently (compressed)", name);
        ensure!(observe(&ow) == observe(p), "c16:owned-observation", "{}: {}", name, diff(&observe(p), &observe(&ow)));
        for q in &p.questions {
            let o = lib("Question::into_owned", || q.clone().into_owned())?;
            ensure!(observe_question(&o) == observe_question(q), "c16:question-owned", "{}: question changes when owned", name);
            ensure!(o.qname == q.qname && h(&o.qname) == h(&q.qname), "c16:hash-name", "{}: question name differs / hashes differently when owned", name);
        }
        for r in p.answers.iter().chain(&p.name_servers).chain(&p.additional_records) {
            let cl = lib("ResourceRecord::clone", || r.clone())?;
            same_record(r, &cl, &format!("{} vs clone", name))?;
            let o = lib("ResourceRecord::into_owned", || r.clone().into_owned())?;
            same_record(r, &o, &format!("{} vs owned", name))?;
            let rd = lib("RData::into_owned", || r.rdata.clone().into_owned())?;
            ensure!(rd == r.rdata && h(&rd) == h(&r.rdata), "c16:rdata-owned", "{}: rdata differs / hashes differently when owned", name);
            let nm = lib("Name::into_owned", || r.name.clone().into_owned())?;
            ensure!(nm == r.name && h(&nm) == h(&r.name), "c16:hash-name", "{}: name differs / hashes differently when owned", name);
        }
    }
    // equal values built along different paths
    let secs = |p: &Packet| -> Vec<ResourceRecord<'static>> { p.answers.iter().chain(&p.name_servers).chain(&p.additional_records).cloned().map(|r| r.into_owned()).collect() };
    let (rb, ru, rc) = (secs(base), secs(&pu), secs(&pc));
    if !(rb.len() == ru.len() && ru.len() == rc.len()) {
        case.class("record-counts-differ-between-paths:no-claim");
        return Ok(());
    }
    for i in 0..rb.len() {
        same_record_as(&built_record(base, i), &ru[i], "built vs parsed-plain", false)?;
        same_record_as(&ru[i], &rc[i], "parsed-plain vs parsed-compressed", false)?;
    }
    case.extra_evals = 3 * rb.len() as u64;
    Ok(())
}

fn built_record<'a>(p: &Packet<'a>, i: usize) -> ResourceRecord<'a> {
    p.answers.iter().chain(&p.name_servers).chain(&p.additional_records).nth(i).unwrap().clone()
}

fn copies_strategy(t: Tier) -> BoxedStrategy<gen::Sharing> {
    gen::sharing(t)
}

/// records that differ only slightly (TTL, cache-flush, the letter case of one label, the class):
/// whenever the library calls two values equal they must hash equally
type PairIn = (ARecord, u32, bool, u8, u16);

fn pair_strategy(_t: Tier) -> BoxedStrategy<PairIn> {
    (gen::arecord_with_n(gen::ardata_n(gen::share_name()), gen::share_name()), gen::u32b(), any::<bool>(), 0u8..6, any::<u16>()).boxed()
}

fn flip_case(n: &mut AName, pick: u16) -> bool {
    let spots: Vec<(usize, usize)> = n.0.iter().enumerate().flat_map(|(i, l)| l.0.iter().enumerate().filter(|(_, b)| b.is_ascii_alphabetic()).map(move |(j, _)| (i, j))).collect();
    if spots.is_empty() {
        return false;
    }
    let (i, j) = spots[gen::pick(pick, spots.len())];
    n.0[i].0[j] ^= 0x20;
    true
}

fn check_pair(input: &PairIn, case: &mut Case) -> Result<(), Fail> {
    let (rec, ttl2, flush2, how, pick) = input;
    let mut other = rec.clone();
    match how {
        0 | 1 => {
            other.ttl = *ttl2;
            other.cache_flush = *flush2;
            case.class("ttl-flush");
        }
        2 | 3 => {
            if flip_case(&mut other.name, *pick) {
                case.class("owner-case");
            }
        }
        4 => {
            if let ARData::Typed { fields, .. } = &mut other.rdata {
                for f in fields.iter_mut() {
                    if let Val::Name(n) = f {
                        if flip_case(n, *pick) {
                            case.class("rdata-name-case");
                        }
                        break;
                    }
                }
            }
        }
        _ => {
            other.class = if rec.class == 1 { 3 } else { 1 };
            case.class("class");
        }
    }
    case.nontrivial = other != *rec;
    let a = lib("build_record", || build_record(rec))?.map_err(|e| Fail::new("harness:build", e))?;
    let b = lib("build_record", || build_record(&other))?.map_err(|e| Fail::new("harness:build", e))?;
    // the parts that are keys in their own right
    if lib("Name::eq", || a.name == b.name)? {
        ensure!(h(&a.name) == h(&b.name), "c16:hash-name", "names {:?} and {:?} are == but hash differently", rec.name.render(), other.name.render());
        let set: std::collections::HashSet<&simple_dns::Name> = [&a.name, &b.name].into_iter().collect();
        ensure!(set.len() == 1, "c16:set", "two equal names occupy {} slots of a HashSet", set.len());
    }
    if lib("RData::eq", || a.rdata == b.rdata)? {
        ensure!(h(&a.rdata) == h(&b.rdata), "c16:hash-rdata", "rdata values are == but hash differently");
    }
    for (x, y) in a.name.get_labels().iter().zip(b.name.get_labels()) {
        if x == y {
            ensure!(h(x) == h(y), "c16:hash-label", "labels are == but hash differently");
        }
    }
    if lib("ResourceRecord::eq", || a == b)? {
        case.class("equal");
        ensure!(h(&a) == h(&b), "c16:hash-record", "records {:?} and {:?} are == but hash differently", rec, other);
        let set: std::collections::HashSet<ResourceRecord> = [a.clone(), b.clone()].into_iter().collect();
        ensure!(set.len() == 1, "c16:set", "two equal records occupy {} slots of a HashSet", set.len());
    } else {
        case.class("different");
    }
    Ok(())
}

/// two records of one type that agree on all but a few RDATA fields: whenever the library calls the
/// RDATA values (or the records) equal they must hash equally; and a value always equals itself
type TwinIn = (ARData, ARData, u16, AName);

fn twin_strategy(_t: Tier) -> BoxedStrategy<TwinIn> {
    proptest::sample::select(gen::record_codes())
        .prop_flat_map(|code| (gen::typed_n(code, gen::share_name()), gen::typed_n(code, gen::share_name()), any::<u16>(), gen::share_name()))
        .boxed()
}

fn check_twin(input: &TwinIn, case: &mut Case) -> Result<(), Fail> {
    let (x, y, mask, owner) = input;
    let mut twin = x.clone();
    let mut changed = 0;
    if let (ARData::Typed { fields: tf, .. }, ARData::Typed { fields: yf, .. }) = (&mut twin, y) {
        // a sparse mask: mostly one field differs
        let m = if mask & 0xf000 == 0 { *mask } else { 1u16 << (mask % tf.len().max(1) as u16) };
        for (i, f) in tf.iter_mut().enumerate() {
            if m & (1 << i) != 0 && *f != yf[i] {
                *f = yf[i].clone();
                changed += 1;
            }
        }
    }
    // a quarter of the cases: the twin differs by trailing zero octets in one opaque field (padding a maintainer may ignore)
    if mask & 0x0300 == 0x0300 {
        if let ARData::Typed { code, fields } = &mut twin {
            let info = type_info(*code);
            for (i, f) in fields.iter_mut().enumerate() {
                // only opaque data without its own length rule: Rest / fixed fields keep their size
                let kind = info.and_then(|inf| value_fields(inf).nth(i)).map(|fd| fd.kind);
                if let (Val::Bytes(b), Some(Kind::Rest)) = (&mut *f, kind) {
                    if b.0.last() == Some(&0) {
                        b.0.pop();
                    } else {
                        b.0.push(0);
                    }
                    changed += 1;
                    case.class("zero-padding-twin");
                    break;
                }
            }
        }
    }
    case.nontrivial = changed >= 1;
    case.class(format!("fields-changed-{}", changed.min(3)));
    let ra = ARecord { name: owner.clone(), class: 1, cache_flush: false, ttl: 7, rdata: x.clone() };
    let rb = ARecord { rdata: twin.clone(), ..ra.clone() };
    let a = lib("build_record", || build_record(&ra))?.map_err(|e| Fail::new("harness:build", e))?;
    let b = lib("build_record", || build_record(&rb))?.map_err(|e| Fail::new("harness:build", e))?;
    ensure!(lib("RData::eq", || a.rdata == a.rdata.clone())?, "c16:not-reflexive", "an RDATA value differs from its clone: {:?}", x);
    if lib("RData::eq", || a.rdata == b.rdata)? {
        case.class(if changed == 0 { "identical" } else { "equal-though-fields-differ" });
        ensure!(h(&a.rdata) == h(&b.rdata), "c16:hash-rdata", "rdata values {:?} and {:?} are == but hash differently", x, twin);
    }
    if lib("ResourceRecord::eq", || a == b)? {
        ensure!(h(&a) == h(&b), "c16:hash-record", "records with rdata {:?} and {:?} are == but hash differently", x, twin);
        let set: std::collections::HashSet<ResourceRecord> = [a.clone(), b.clone()].into_iter().collect();
        ensure!(set.len() == 1, "c16:set", "two equal records occupy {} slots of a HashSet", set.len());
    }
    Ok(())
}

/// the same type named two ways (its own variant / TYPE::Unknown(code), RData::Empty / RData::NULL without data):
/// the library may call such values equal or different, but equal values must hash equally
fn enum_alias(_t: Tier, shard: usize, n: usize, f: &mut dyn FnMut(u16) -> bool) {
    for (i, code) in (0u16..=300).chain([32768, 65280, 65535]).enumerate() {
        if mine(i, shard, n) && !f(code) {
            return;
        }
    }
}

fn check_alias(code: &u16, case: &mut Case) -> Result<(), Fail> {
    use simple_dns::rdata::{RData, NULL};
    use simple_dns::{Name, CLASS, TYPE};
    case.nontrivial = true;
    let forms: Vec<(&str, RData)> = vec![
        ("Empty(TYPE::from)", RData::Empty(TYPE::from(*code))),
        ("Empty(TYPE::Unknown)", RData::Empty(TYPE::Unknown(*code))),
        ("NULL(code, empty)", RData::NULL(*code, NULL::new(&[]).unwrap())),
    ];
    ensure!(h(&TYPE::from(*code)) == h(&TYPE::from(*code)), "c16:hash-type", "TYPE hash is not a function of the value");
    if lib("TYPE::eq", || TYPE::from(*code) == TYPE::Unknown(*code))? {
        case.class("type-forms-equal");
        ensure!(h(&TYPE::from(*code)) == h(&TYPE::Unknown(*code)), "c16:hash-type", "TYPE::from({}) == TYPE::Unknown({}) but they hash differently", code, code);
    }
    for (i, (na, a)) in forms.iter().enumerate() {
        for (nb, b) in forms.iter().skip(i + 1) {
            if lib("RData::eq", || a == b)? {
                case.class("rdata-forms-equal");
                ensure!(h(a) == h(b), "c16:hash-rdata", "type {}: {} == {} but they hash differently", code, na, nb);
            }
            let ra = ResourceRecord::new(Name::new_unchecked("a.local"), CLASS::IN, 1, a.clone());
            let rb = ResourceRecord::new(Name::new_unchecked("a.local"), CLASS::IN, 1, b.clone());
            if lib("ResourceRecord::eq", || ra == rb)? {
                ensure!(h(&ra) == h(&rb), "c16:hash-record", "type {}: records holding {} and {} are == but hash differently", code, na, nb);
                let set: std::collections::HashSet<ResourceRecord> = [ra.clone(), rb.clone()].into_iter().collect();
                ensure!(set.len() == 1, "c16:set", "two equal records occupy {} slots of a HashSet", set.len());
            }
        }
    }
    Ok(())
}

/// values at the edges of the constructors: empty TXT, empty NULL, no params / windows / options, root names
fn enum_special(_t: Tier, shard: usize, n: usize, f: &mut dyn FnMut(u8) -> bool) {
    for k in 0..15u8 {
        if mine(k as usize, shard, n) && !f(k) {
            return;
        }
    }
}

fn check_special(k: &u8, case: &mut Case) -> Result<(), Fail> {
    use simple_dns::rdata::*;
    use simple_dns::{Name, CLASS};
    case.nontrivial = true;
    let root = || Name::new_unchecked("");
    let rd: RData = match k {
        0 => RData::TXT(TXT::new()),
        1 => RData::TXT(TXT::default()),
        2 => RData::TXT(TXT::new().with_string("").unwrap()),
        3 => RData::TXT(TXT::try_from(std::collections::HashMap::new()).unwrap()),
        4 => RData::TXT(TXT::try_from("").unwrap()),
        5 => RData::NULL(10, NULL::new(&[]).unwrap()),
        6 => RData::NULL(99, NULL::new(&[]).unwrap()),
        7 => RData::SVCB(SVCB::new(0, root())),
        8 => RData::NSEC(NSEC { next_name: root(), type_bit_maps: vec![] }),
        12 => RData::NSEC(NSEC {
            next_name: Name::new_unchecked("next.local"),
            type_bit_maps: vec![
                TypeBitMap { window_block: 5, bitmap: std::borrow::Cow::Borrowed(&[0x40][..]) },
                TypeBitMap { window_block: 1, bitmap: std::borrow::Cow::Borrowed(&[0x01, 0x02][..]) },
                TypeBitMap { window_block: 3, bitmap: std::borrow::Cow::Borrowed(&[][..]) },
            ],
        }),
        13 => {
            let mut s = SVCB::new(1, Name::new_unchecked("svc.local"));
            s.set_param(65535, &b"x"[..]).unwrap();
            s.set_param(0, &b""[..]).unwrap();
            RData::SVCB(s)
        }
        14 => RData::OPT(OPT { opt_codes: vec![OPTCode { code: 12, data: std::borrow::Cow::Borrowed(&[0, 0][..]) }], udp_packet_size: 3, version: 200 }),
        9 => RData::OPT(OPT { opt_codes: vec![], udp_packet_size: 0, version: 0 }),
        10 => RData::Empty(simple_dns::TYPE::TXT),
        _ => RData::NS(NS(root())),
    };
    let r = ResourceRecord::new(Name::new_unchecked("x.local"), CLASS::IN, 5, rd);
    let cl = lib("clone", || r.clone())?;
    let ow = lib("into_owned", || r.clone().into_owned())?;
    for (what, other) in [("clone", &cl), ("owned copy", &ow)] {
        ensure!(lib("eq", || *other == r)?, "c16:special-not-equal", "special value #{}: the {} is not equal to the original ({:?})", k, what, r.rdata);
        ensure!(lib("eq", || other.rdata == r.rdata)?, "c16:special-not-equal", "special value #{}: the rdata of the {} is not equal to the original ({:?})", k, what, r.rdata);
        ensure!(h(other) == h(&r) && h(&other.rdata) == h(&r.rdata), "c16:special-hash", "special value #{}: the {} hashes differently", k, what);
        for compressed in [false, true] {
            ensure!(wire_of_record(other, compressed)? == wire_of_record(&r, compressed)?, "c16:special-bytes", "special value #{}: the {} serialises differently (compressed={})", k, what, compressed);
        }
    }
    // two records holding the same OPT data but a different `class` member: whatever == says, hashing must agree with it
    if let RData::OPT(o) = &r.rdata {
        let a = ResourceRecord::new(r.name.clone(), CLASS::IN, 5, RData::OPT(o.clone()));
        let b = ResourceRecord::new(r.name.clone(), CLASS::CH, 5, RData::OPT(o.clone()));
        if lib("eq", || a == b)? {
            ensure!(h(&a) == h(&b), "c16:hash-record", "two OPT records differing only in their class member are == but hash differently");
            let set: std::collections::HashSet<ResourceRecord> = [a, b].into_iter().collect();
            ensure!(set.len() == 1, "c16:set", "two equal OPT records occupy {} slots of a HashSet", set.len());
        }
    }
    // the owned copy must stay usable like the original: add a string to both TXT values and compare again
    if let (RData::TXT(t0), RData::TXT(t1)) = (&r.rdata, &ow.rdata) {
        let a = ResourceRecord::new(r.name.clone(), CLASS::IN, 5, RData::TXT(t0.clone().with_string("k=v").unwrap()));
        let b = ResourceRecord::new(r.name.clone(), CLASS::IN, 5, RData::TXT(t1.clone().with_string("k=v").unwrap()));
        for compressed in [false, true] {
            ensure!(wire_of_record(&a, compressed)? == wire_of_record(&b, compressed)?, "c16:special-bytes", "special value #{}: after adding a string the owned copy serialises differently (compressed={})", k, compressed);
        }
    }
    Ok(())
}

/// instance information: same members inserted in different orders
#[derive(Debug, Clone, PartialEq, Eq, Hash, serde::Serialize, serde::Deserialize)]
pub struct Inst {
    pub name: String,
    pub ips: Vec<(bool, Bytes)>,
    pub ports: Vec<u16>,
    pub attrs: Vec<(String, Option<String>)>,
    pub perm: Vec<u16>,
}

fn inst_strategy(_t: Tier) -> BoxedStrategy<Inst> {
    (
        "[a-z]{1,8}",
        vec((any::<bool>(), vec(any::<u8>(), 16).prop_map(Bytes)), 0..6),
        vec(any::<u16>(), 0..6),
        vec(("[a-z]{1,4}", proptest::option::of("[a-z]{0,4}")), 0..4),
        vec(any::<u16>(), 16),
    )
        .prop_map(|(name, ips, ports, attrs, perm)| Inst { name, ips, ports, attrs, perm })
        .boxed()
}

fn ip_of(v4: bool, b: &[u8]) -> IpAddr {
    if v4 {
        IpAddr::from([b[0], b[1], b[2], b[3]])
    } else {
        let a: [u8; 16] = b[..16].try_into().unwrap();
        IpAddr::from(a)
    }
}

fn make_inst(i: &Inst, reversed: bool, rot: usize) -> InstanceInformation {
    let mut x = InstanceInformation::new(i.name.clone());
    let order = |n: usize| -> Vec<usize> {
        let mut v: Vec<usize> = (0..n).collect();
        if n > 0 {
            v.rotate_left(rot % n);
        }
        if reversed {
            v.reverse();
        }
        v
    };
    for k in order(i.ips.len()) {
        x = x.with_ip_address(ip_of(i.ips[k].0, &i.ips[k].1));
    }
    for k in order(i.ports.len()) {
        x = x.with_port(i.ports[k]);
    }
    // attribute maps: duplicates in the input would make insertion order matter; keep first
    let mut seen = std::collections::HashSet::new();
    let uniq: Vec<&(String, Option<String>)> = i.attrs.iter().filter(|a| seen.insert(a.0.clone())).collect();
    for k in order(uniq.len()) {
        x = x.with_attribute(uniq[k].0.clone(), uniq[k].1.clone());
    }
    x
}

fn check_inst(i: &Inst, case: &mut Case) -> Result<(), Fail> {
    let distinct_ips: std::collections::HashSet<_> = i.ips.iter().map(|(v4, b)| ip_of(*v4, b)).collect();
    let distinct_ports: std::collections::HashSet<_> = i.ports.iter().collect();
    case.nontrivial = distinct_ips.len() >= 2 || distinct_ports.len() >= 2;
    // a correct Hash passes always; an iteration-order dependent one fails with probability ~1 per
    // pair because every HashSet gets a fresh RandomState
    for trial in 0..32usize {
        let a = lib("InstanceInformation::new", || make_inst(i, false, 0))?;
        let b = lib("InstanceInformation::new", || make_inst(i, trial % 2 == 1, trial))?;
        ensure!(lib("InstanceInformation::eq", || a == b)?, "c16:instance-not-equal", "instance information with the same members compares different");
        ensure!(h(&a) == h(&b), "c16:hash-instance", "equal InstanceInformation values hash differently (trial {}): members inserted in a different order / different HashSet seeds", trial);
        let set: std::collections::HashSet<InstanceInformation> = [a.clone(), b].into_iter().collect();
        ensure!(set.len() == 1, "c16:hash-instance", "two equal InstanceInformation values occupy {} slots of a HashSet", set.len());
        let c = a.clone();
        ensure!(c == a && h(&c) == h(&a), "c16:instance-clone", "clone differs or hashes differently");
    }
    // Near twins: one member changed a little (letter case of the name / an attribute key / a value, an empty value
    // against none, one more or one other port or address). Whether such a twin still counts as equal is the
    // library's choice and no claim is made about it; the statement is only the implication: if the two compare
    // equal they hash equally and take one slot of a set, if not they take two.
    let a = lib("InstanceInformation::new", || make_inst(i, false, 0))?;
    let upper = |s: &str, k: usize| -> String { s.chars().enumerate().map(|(j, c)| if j == k % s.len().max(1) { c.to_ascii_uppercase() } else { c }).collect() };
    let mut twins: Vec<(&str, Inst)> = Vec::new();
    let mut t = i.clone();
    t.name = upper(&t.name, i.perm[0] as usize);
    twins.push(("name in another letter case", t));
    for (k, (key, val)) in i.attrs.iter().enumerate() {
        let mut t = i.clone();
        t.attrs[k].0 = upper(key, i.perm[1] as usize);
        twins.push(("an attribute key in another letter case", t));
        let mut t = i.clone();
        t.attrs[k].1 = match val {
            None => Some(String::new()),
            Some(v) if v.is_empty() => None,
            Some(v) => Some(upper(v, i.perm[2] as usize)),
        };
        twins.push(("an attribute value changed (letter case, or empty against none)", t));
        let mut t = i.clone();
        t.attrs.remove(k);
        twins.push(("one attribute fewer", t));
    }
    if let Some(p0) = i.ports.first() {
        let mut t = i.clone();
        t.ports[0] = p0.wrapping_add(1);
        twins.push(("one port changed", t));
    }
    let mut t = i.clone();
    t.ports.push(i.perm[3]);
    twins.push(("one more port", t));
    if !i.ips.is_empty() {
        let mut t = i.clone();
        t.ips[0].0 = !t.ips[0].0;
        twins.push(("one address of the other family", t));
        let mut t = i.clone();
        t.ips.remove(0);
        twins.push(("one address fewer", t));
    }
    let ntw = twins.len() as u64;
    for (what, t) in twins {
        let b = lib("InstanceInformation::new", || make_inst(&t, false, 0))?;
        let eq = lib("InstanceInformation::eq", || a == b)?;
        let eq2 = lib("InstanceInformation::eq", || b == a)?;
        // (whether == is symmetric is not part of the statement: compared in either direction, equal values hash equally)
        if eq || eq2 {
            case.class("near-twin-equal");
            ensure!(h(&a) == h(&b), "c16:hash-instance", "two InstanceInformation values that compare equal hash differently ({}): {:?} / {:?}", what, i, t);
        }
        if eq == eq2 {
            let set: std::collections::HashSet<InstanceInformation> = [a.clone(), b].into_iter().collect();
            ensure!(set.len() == if eq { 1 } else { 2 }, "c16:hash-instance", "two InstanceInformation values with == {} occupy {} slots of a HashSet ({})", eq, set.len(), what);
        }
    }
    case.extra_evals = 31 + ntw;
    Ok(())
}

pub fn def() -> CheckDef {
    CheckDef {
        id: "C16",
        rule: "proptest: (1) suffix-sharing packets (as C03) built through the public API, serialised plain and compressed and parsed back, giving three versions of every value (built from parts, borrowed from the plain buffer, borrowed from the compressed buffer); each packet/question/record/name/label/RDATA is cloned and converted with into_owned (packets: rebuilt from owned parts) and must be ==, observe equally, hash equally and serialise to identical bytes plain and compressed; the three versions of each record are compared pairwise: whenever two of them are == they must hash equally (equality across construction paths itself is C02's business). (2) pairs of records differing only in TTL / cache-flush, in the letter case of one owner or RDATA-name label, or in class: whenever == holds (for the record, its name, its labels, its rdata) the hashes must agree and a HashSet must hold one entry; likewise for pairs of records of one type whose RDATA differs in one or a few fields taken from a second value or in trailing zero octets of an opaque field, and for one type named three ways (Empty(TYPE::from(c)), Empty(TYPE::Unknown(c)), NULL(c, empty)) for every code 0..=300. (2b) fifteen edge values (incl. an NSEC whose windows are held out of order, SVCB with keys 0 and 65535, OPT records differing only in their class member) (empty TXT built five ways, empty NULL, SVCB without params, NSEC without windows, OPT without options, Empty, root names): clone and owned copy equal, hash-equal, byte-equal, also after a further string is added. (3) InstanceInformation built 32 times from the same addresses/ports/attributes in rotated and reversed insertion orders (fresh HashSet seeds each time): equal, equal hashes, one HashSet slot. Non-trivial = a name with >= 2 labels or a variable-length field (instances: >= 2 distinct addresses or ports)",
        assumptions: vec!["DefaultHasher::new() (fixed keys) for hash comparisons; std's per-HashSet RandomState only influences how quickly an order-dependent Hash is caught, never the verdict on a correct one"],
        sections: vec![
            Box::new(PropSection { name: "copies", rule: "clone / owned / built-vs-parsed", strategy: copies_strategy, cases: (60_000, 600_000), check: check_copies }),
            Box::new(PropSection { name: "ttl-flush", rule: "records equal up to ttl/flush", strategy: pair_strategy, cases: (200_000, 2_000_000), check: check_pair }),
            Box::new(PropSection { name: "field-twins", rule: "records of one type differing in few RDATA fields", strategy: twin_strategy, cases: (150_000, 1_500_000), check: check_twin }),
            Box::new(EnumSection { name: "type-aliases", rule: "one type named through its variant, TYPE::Unknown and the NULL catch-all", enumerate: enum_alias, check: check_alias, exhaustive: true }),
            Box::new(EnumSection { name: "special-values", rule: "edge values of the constructors", enumerate: enum_special, check: check_special, exhaustive: true }),
            Box::new(PropSection { name: "instance-info", rule: "set-valued instance information", strategy: inst_strategy, cases: (20_000, 200_000), check: check_inst }),
        ],
    }
}

pub fn check_pub(input: &gen::Sharing, case: &mut Case) -> Result<(), Fail> {
    check_copies(input, case)
}

//! C17 — textual name API: validation, display, suffix algebra (bounded-exhaustive)
use super::util::*;
use crate::bridge::oname;
use crate::driver::CheckDef;
use crate::ensure;
use crate::runner::*;
use simple_dns::{Label, Name};

const SYMS: [&str; 8] = ["a", "A", "1", "-", "_", ".", "\\", "é"];

/// the grammar, written from the statement
fn label_ok(piece: &[u8]) -> bool {
    let n = piece.len();
    if n == 0 || n > 63 {
        return false;
    }
    let alnum = |c: u8| c.is_ascii_alphabetic() || c.is_ascii_digit();
    let first = piece[0];
    let last = piece[n - 1];
    if !(alnum(first) || first == b'_') {
        return false;
    }
    if !alnum(last) {
        return false;
    }
    piece.iter().all(|c| alnum(*c) || *c == b'-' || *c == b'_')
}

fn pieces(s: &str) -> Vec<&str> {
    s.split('.').filter(|p| !p.is_empty()).collect()
}

fn name_ok(s: &str) -> bool {
    let ps = pieces(s);
    ps.iter().all(|p| label_ok(p.as_bytes())) && 1 + ps.iter().map(|p| p.len() + 1).sum::<usize>() <= 255
}

fn check_text(s: &String, case: &mut Case) -> Result<(), Fail> {
    let want = name_ok(s);
    let ps = pieces(s);
    case.nontrivial = !ps.is_empty();
    case.class(if want { "accept" } else { "reject" });
    let got = lib("Name::new", || Name::new(s))?;
    match (&got, want) {
        (Ok(_), false) => return Err(Fail::new("c17:accepts-invalid", format!("Name::new({:?}) accepted", s))),
        (Err(e), true) => return Err(Fail::new("c17:rejects-valid", format!("Name::new({:?}) = {:?}", s, e))),
        _ => {}
    }
    if let Ok(name) = got {
        let shown = lib("Name::to_string", || name.to_string())?;
        ensure!(shown == ps.join("."), "c17:display", "Name::new({:?}) displays as {:?}", s, shown);
        let again = lib("Name::new", || Name::new(&shown))?;
        match again {
            Ok(n2) => ensure!(n2 == name, "c17:recreate", "re-creating {:?} gives a different name", shown),
            Err(e) => return Err(Fail::new("c17:recreate", format!("Name::new({:?}) = {:?}", shown, e))),
        }
        let labels = oname(&name);
        ensure!(
            labels.0.iter().map(|l| l.0.as_slice()).collect::<Vec<_>>() == ps.iter().map(|p| p.as_bytes()).collect::<Vec<_>>(),
            "c17:labels",
            "labels of {:?} are {:?}",
            s,
            labels
        );
    }
    // the conversion traits are the same constructor under another name
    let conv = lib("Name::try_from(&str)", || Name::try_from(s.as_str()).map(|n| oname(&n)))?;
    ensure!(conv.is_ok() == want, "c17:try-from", "Name::try_from({:?}).is_ok() = {}, the grammar says {}", s, conv.is_ok(), want);
    if let Ok(labels) = conv {
        ensure!(
            labels.0.iter().map(|l| l.0.as_slice()).collect::<Vec<_>>() == ps.iter().map(|p| p.as_bytes()).collect::<Vec<_>>(),
            "c17:try-from",
            "labels of Name::try_from({:?}) are {:?}",
            s,
            labels
        );
    }
    // a name assembled from checked labels is the same name
    if want && ps.len() <= 4 {
        let labels: Result<Vec<Label>, _> = ps.iter().map(|p| Label::new(p.as_bytes())).collect();
        let Ok(labels) = labels else { return Ok(()) };
        let from_slice = lib("Name::from(&[Label])", || oname(&Name::from(labels.as_slice())))?;
        let direct = lib("Name::new", || Name::new(s).map(|n| oname(&n)))?;
        // (observed only: the statement is about names made from text, not about the label-slice conversions)
        let _ = (from_slice, direct);
        if ps.len() == 2 {
            let arr: [Label; 2] = [labels[0].clone(), labels[1].clone()];
            let _ = lib("Name::from([Label; N])", || oname(&Name::from(arr)))?;
        }
    }
    // single label constructor obeys the same label rule (no dot splitting there)
    if !s.contains('.') {
        // (observed only: Label::new is a byte-level constructor the statement does not mention)
        let _ = lib("Label::new", || Label::new(s.as_bytes()).is_ok())?;
    }
    Ok(())
}

fn enum_strings(t: Tier, shard: usize, n: usize, f: &mut dyn FnMut(String) -> bool) {
    let maxlen = t.pick(6, 7);
    let mut idx = 0usize;
    for len in 0..=maxlen {
        let total = 8usize.pow(len as u32);
        for k in 0..total {
            idx += 1;
            if !mine(idx, shard, n) {
                continue;
            }
            let mut s = String::new();
            let mut x = k;
            for _ in 0..len {
                s.push_str(SYMS[x % 8]);
                x /= 8;
            }
            if !f(s) {
                return;
            }
        }
    }
}

fn enum_lengths(_t: Tier, shard: usize, n: usize, f: &mut dyn FnMut(String) -> bool) {
    let mut all: Vec<String> = Vec::new();
    for len in 0..=70usize {
        for c in ["a", "_", "1"] {
            let l = c.repeat(len);
            all.push(l.clone());
            all.push(format!("x.{}.y", l));
            all.push(format!("{}-", l));
            all.push(format!("-{}", l));
        }
    }
    // names with wire length 240..=260 built from labels of assorted sizes
    for lab in [63usize, 62, 31, 7, 1] {
        for target in 240..=260usize {
            // wire = 1 + sum(len+1)
            let mut parts = Vec::new();
            let mut wire = 1;
            while wire + lab + 1 <= target {
                parts.push("a".repeat(lab));
                wire += lab + 1;
            }
            let rem = target - wire;
            if rem >= 2 {
                parts.push("b".repeat(rem - 1));
            }
            all.push(parts.join("."));
            all.push(parts.join(".") + ".");
            all.push(parts.join(".."));
        }
    }
    for (i, s) in all.into_iter().enumerate() {
        if mine(i, shard, n) && !f(s) {
            return;
        }
    }
}

/// every two-byte character U+0080..U+07FF and samples of three- and four-byte characters, at the
/// first / middle / last position of a label and as a whole label: all must be refused
fn enum_non_ascii(_t: Tier, shard: usize, n: usize, f: &mut dyn FnMut(String) -> bool) {
    let mut chars: Vec<char> = (0x80u32..0x800).filter_map(char::from_u32).collect();
    chars.extend((0x800u32..0x3000).step_by(37).filter_map(char::from_u32));
    chars.extend([0xFF21u32, 0xFF41, 0xFF10, 0x1F600, 0x10400, 0x1D7CE, 0x2170, 0x00AA, 0x00BA].iter().filter_map(|c| char::from_u32(*c)));
    let mut i = 0;
    for c in chars {
        i += 1;
        if !mine(i, shard, n) {
            continue;
        }
        for s in [format!("{}", c), format!("a{}a", c), format!("{}a", c), format!("a{}", c), format!("A.{}", c), format!("{}.local", c)] {
            if !f(s) {
                return;
            }
        }
    }
}

/// the string literals of the sources (a special-cased prefix or suffix has to be spelled there), alone and glued
/// to valid and invalid neighbours
fn enum_dict(_t: Tier, shard: usize, n: usize, f: &mut dyn FnMut(String) -> bool) {
    let mut i = 0;
    for raw in crate::gen::dict_strings() {
        let Ok(s) = String::from_utf8(raw.0.clone()) else { continue };
        for w in [
            s.clone(),
            format!("{}a", s),
            format!("a{}", s),
            format!("{}.local", s),
            format!("a.{}", s),
            format!("{}--a", s),
            format!("a--{}", s),
            format!("aa{}a", s),
            format!("{}{}", s, s),
            format!("{}.{}", s, s),
            s.to_ascii_uppercase(),
            format!("{}-", s),
            format!("_{}", s),
        ] {
            i += 1;
            if mine(i, shard, n) && !f(w) {
                return;
            }
        }
    }
}

fn ab_names() -> Vec<Vec<&'static str>> {
    let mut v = names_over(&["a", "b"], 4);
    // labels of two characters too: with one-character labels only, a text-based suffix test (ends_with on the
    // rendered names) could not be told from a label-wise one ("xa.b" ends with "a.b" as text, not as labels)
    v.extend(names_over(&["a", "b", "ab", "ba"], 3).into_iter().filter(|n| n.iter().any(|l| l.len() == 2)));
    v
}

fn names_over(alphabet: &[&'static str], depth: usize) -> Vec<Vec<&'static str>> {
    let mut v: Vec<Vec<&'static str>> = vec![vec![]];
    let mut frontier: Vec<Vec<&'static str>> = vec![vec![]];
    for _ in 0..depth {
        let mut next = Vec::new();
        for base in &frontier {
            for c in alphabet.iter().copied() {
                let mut x = base.clone();
                x.push(c);
                next.push(x);
            }
        }
        v.extend(next.clone());
        frontier = next;
    }
    v
}

fn enum_pairs(_t: Tier, shard: usize, n: usize, f: &mut dyn FnMut((String, String)) -> bool) {
    let names = ab_names();
    let mut i = 0;
    for x in &names {
        for y in &names {
            i += 1;
            if mine(i, shard, n) && !f((x.join("."), y.join("."))) {
                return;
            }
        }
    }
}

fn check_pair(input: &(String, String), case: &mut Case) -> Result<(), Fail> {
    let (xs, ys) = input;
    let xl = pieces(xs);
    let yl = pieces(ys);
    let x = lib("Name::new", || Name::new(xs))?.map_err(|e| Fail::new("c17:rejects-valid", format!("{:?}: {:?}", xs, e)))?;
    let y = lib("Name::new", || Name::new(ys))?.map_err(|e| Fail::new("c17:rejects-valid", format!("{:?}: {:?}", ys, e)))?;
    let want = xl.len() > yl.len() && xl[xl.len() - yl.len()..] == yl[..];
    case.nontrivial = !yl.is_empty() && !xl.is_empty();
    case.class(if want { "subdomain" } else { "not-subdomain" });
    let got = lib("is_subdomain_of", || x.is_subdomain_of(&y))?;
    ensure!(got == want, "c17:is-subdomain", "{:?}.is_subdomain_of({:?}) = {}", xs, ys, got);
    let w = lib("without", || x.without(&y).map(|n| oname(&n)))?;
    if want {
        let lead: Vec<&str> = xl[..xl.len() - yl.len()].to_vec();
        match w {
            Some(n) => ensure!(
                n.0.iter().map(|l| String::from_utf8_lossy(l).to_string()).collect::<Vec<_>>() == lead,
                "c17:without",
                "{:?}.without({:?}) = {:?}",
                xs,
                ys,
                n
            ),
            None => return Err(Fail::new("c17:without", format!("{:?}.without({:?}) = None", xs, ys))),
        }
    } else {
        ensure!(w.is_none(), "c17:without", "{:?}.without({:?}) = {:?}", xs, ys, w);
    }
    Ok(())
}

/// (backing text, start and end of the first slice, start and end of the second slice)
type Shared = (String, u8, u8, u8, u8);

/// Two names cut out of ONE backing text (overlapping slices, cuts in the middle of labels): the statement
/// speaks of labels, so where the text of a name is stored must not matter. Texts over {a, b, .} up to length
/// 6 (7 thorough), every ordered pair of slices that are names by the rule of the statement.
fn enum_shared(t: Tier, shard: usize, n: usize, f: &mut dyn FnMut(Shared) -> bool) {
    let maxlen = if t == Tier::Quick { 6 } else { 7 };
    let mut texts: Vec<String> = vec![String::new()];
    let mut frontier = vec![String::new()];
    for _ in 0..maxlen {
        let mut next = Vec::new();
        for b in &frontier {
            for c in ["a", "b", "."] {
                next.push(format!("{}{}", b, c));
            }
        }
        texts.extend(next.iter().cloned());
        frontier = next;
    }
    let mut i = 0;
    for t in texts.iter().filter(|t| t.len() >= 3) {
        let l = t.len();
        let ranges: Vec<(usize, usize)> = (0..l).flat_map(|a| (a + 1..=l).map(move |b| (a, b))).filter(|(a, b)| name_ok(&t[*a..*b]) && !pieces(&t[*a..*b]).is_empty()).collect();
        for (a, b) in &ranges {
            for (c, d) in &ranges {
                i += 1;
                if mine(i, shard, n) && !f((t.clone(), *a as u8, *b as u8, *c as u8, *d as u8)) {
                    return;
                }
            }
        }
    }
}

fn check_shared(input: &Shared, case: &mut Case) -> Result<(), Fail> {
    let (t, a, b, c, d) = input;
    let xs = &t[*a as usize..*b as usize];
    let ys = &t[*c as usize..*d as usize];
    let xl = pieces(xs);
    let yl = pieces(ys);
    let x = lib("Name::new", || Name::new(xs))?.map_err(|e| Fail::new("c17:rejects-valid", format!("{:?}: {:?}", xs, e)))?;
    let y = lib("Name::new", || Name::new(ys))?.map_err(|e| Fail::new("c17:rejects-valid", format!("{:?}: {:?}", ys, e)))?;
    let want = xl.len() > yl.len() && xl[xl.len() - yl.len()..] == yl[..];
    // a label of one name starting at the same byte as a label of the other, with another length
    let starts = |s: usize, ps: &[&str], whole: &str| -> Vec<(usize, usize)> { ps.iter().map(|p| (s + (p.as_ptr() as usize - whole.as_ptr() as usize), p.len())).collect() };
    let sx = starts(*a as usize, &xl, xs);
    let sy = starts(*c as usize, &yl, ys);
    let tricky = sx.iter().any(|(p, l)| sy.iter().any(|(q, m)| p == q && l != m));
    case.nontrivial = tricky;
    case.class(if tricky { "same-start-other-length" } else { "plain" });
    case.class(if want { "subdomain" } else { "not-subdomain" });
    let what = format!("slices {:?} and {:?} of the text {:?}", xs, ys, t);
    let got = lib("is_subdomain_of", || x.is_subdomain_of(&y))?;
    ensure!(got == want, "c17:is-subdomain", "{}: is_subdomain_of = {}", what, got);
    let w = lib("without", || x.without(&y).map(|n| oname(&n)))?;
    if want {
        let lead: Vec<&str> = xl[..xl.len() - yl.len()].to_vec();
        match w {
            Some(n) => ensure!(n.0.iter().map(|l| String::from_utf8_lossy(l).to_string()).collect::<Vec<_>>() == lead, "c17:without", "{}: without = {:?}", what, n),
            None => return Err(Fail::new("c17:without", format!("{}: without = None", what))),
        }
    } else {
        ensure!(w.is_none(), "c17:without", "{}: without = {:?}", what, w);
    }
    // "re-creating it gives an equal name": two names made from the same labels are equal wherever their text is
    // stored (what == says about names with different labels is not part of this statement)
    if xl == yl {
        let eq = lib("==", || x == y)?;
        ensure!(eq, "c17:equality", "{}: the same labels, but == is false", what);
    }
    let again = lib("Name::new(to_string)", || Name::new(&x.to_string()).map(|r| r == x))?;
    ensure!(matches!(again, Ok(true)), "c17:recreate", "{}: the first, displayed and re-created: {:?}", what, again);
    Ok(())
}

fn enum_local(_t: Tier, shard: usize, n: usize, f: &mut dyn FnMut(String) -> bool) {
    let mut lasts: Vec<String> = Vec::new();
    for mask in 0..32u8 {
        let s: String = "local"
            .chars()
            .enumerate()
            .map(|(i, c)| if mask & (1 << i) != 0 { c.to_ascii_uppercase() } else { c })
            .collect();
        lasts.push(s);
    }
    for miss in ["loca", "locall", "local1", "xlocal", "l0cal", "loc-al", "_local", "local_1", "lokal", "com", "a"] {
        lasts.push(miss.to_string());
    }
    let mut all = Vec::new();
    for l in &lasts {
        all.push(l.clone());
        all.push(format!("a.{}", l));
        all.push(format!("a.b.{}", l));
        all.push(format!("{}.a", l));
        all.push(format!("{}.{}", l, l));
        all.push(format!("a.{}.b", l));
        all.push(format!("{}.", l));
    }
    all.push(String::new());
    for (i, s) in all.into_iter().enumerate() {
        if mine(i, shard, n) && !f(s) {
            return;
        }
    }
}

fn check_local(s: &String, case: &mut Case) -> Result<(), Fail> {
    let ps = pieces(s);
    let want = ps.last().map(|l| l.eq_ignore_ascii_case("local")).unwrap_or(false);
    case.nontrivial = ps.len() >= 1;
    case.class(if want { "link-local" } else { "not-link-local" });
    let name = lib("Name::new", || Name::new(s))?.map_err(|e| Fail::new("c17:rejects-valid", format!("{:?}: {:?}", s, e)))?;
    let got = lib("is_link_local", || name.is_link_local())?;
    ensure!(got == want, "c17:link-local", "{:?}.is_link_local() = {}", s, got);
    Ok(())
}

pub fn def() -> CheckDef {
    CheckDef {
        id: "C17",
        rule: "bounded-exhaustive: all strings of length <= 6 (7 thorough) over {a,A,1,-,_,.,\\,é}; label lengths 0..=70 alone/inside a name/with edge hyphens; names of wire length 240..=260 from several label sizes; the string literals of the sources under test alone and glued to 12 kinds of neighbours; every character U+0080..U+07FF (and samples beyond) at the first / middle / last position of a label; all ordered pairs of the 31 names of <= 4 labels over {a,b} and the 78 names of <= 3 labels over {a,b,ab,ba} that hold a two-character label (109x109); every ordered pair of name-shaped slices of one backing text over {a,b,.} of length <= 6 (7 thorough), so that labels of the two names overlap in memory (section `shared-text`); 32 case variants of 'local' + near misses at every position. Non-trivial = at least one non-empty label (pairs: both non-root)",
        assumptions: vec!["'letter' and 'digit' in the statement mean ASCII letters and digits (host name syntax)"],
        sections: vec![
            Box::new(EnumSection { name: "strings", rule: "all short strings", enumerate: enum_strings, check: check_text, exhaustive: true }),
            Box::new(EnumSection { name: "lengths", rule: "label and name length boundaries", enumerate: enum_lengths, check: check_text, exhaustive: true }),
            Box::new(EnumSection { name: "non-ascii", rule: "non-ASCII characters at every position of a label", enumerate: enum_non_ascii, check: check_text, exhaustive: true }),
            Box::new(EnumSection { name: "dictionary", rule: "string literals of the sources, alone and glued to neighbours", enumerate: enum_dict, check: check_text, exhaustive: false }),
            Box::new(EnumSection { name: "suffix", rule: "all ordered pairs of small names", enumerate: enum_pairs, check: check_pair, exhaustive: true }),
            Box::new(EnumSection { name: "shared-text", rule: "two names sliced from one backing text", enumerate: enum_shared, check: check_shared, exhaustive: true }),
            Box::new(EnumSection { name: "link-local", rule: "case variants and near misses of 'local'", enumerate: enum_local, check: check_local, exhaustive: true }),
        ],
    }
}

//! C18 — type/class codes map one-to-one; query matching is exact (exhaustive)
use super::util::*;
use crate::bridge::*;
use crate::driver::CheckDef;
use crate::ensure;
use crate::refmodel::*;
use crate::runner::*;
use simple_dns::{CLASS, QCLASS, QTYPE, TYPE};
use std::convert::TryFrom;

/// IANA "Resource Record (RR) TYPEs" registry, typed in independently
fn iana() -> Vec<(u16, TYPE, &'static str)> {
    vec![
        (1, TYPE::A, "A"),
        (2, TYPE::NS, "NS"),
        (3, TYPE::MD, "MD"),
        (4, TYPE::MF, "MF"),
        (5, TYPE::CNAME, "CNAME"),
        (6, TYPE::SOA, "SOA"),
        (7, TYPE::MB, "MB"),
        (8, TYPE::MG, "MG"),
        (9, TYPE::MR, "MR"),
        (10, TYPE::NULL, "NULL"),
        (11, TYPE::WKS, "WKS"),
        (12, TYPE::PTR, "PTR"),
        (13, TYPE::HINFO, "HINFO"),
        (14, TYPE::MINFO, "MINFO"),
        (15, TYPE::MX, "MX"),
        (16, TYPE::TXT, "TXT"),
        (17, TYPE::RP, "RP"),
        (18, TYPE::AFSDB, "AFSDB"),
        (20, TYPE::ISDN, "ISDN"),
        (21, TYPE::RouteThrough, "RT"),
        (22, TYPE::NSAP, "NSAP"),
        (23, TYPE::NSAP_PTR, "NSAP-PTR"),
        (28, TYPE::AAAA, "AAAA"),
        (29, TYPE::LOC, "LOC"),
        (33, TYPE::SRV, "SRV"),
        (35, TYPE::NAPTR, "NAPTR"),
        (36, TYPE::KX, "KX"),
        (37, TYPE::CERT, "CERT"),
        (41, TYPE::OPT, "OPT"),
        (43, TYPE::DS, "DS"),
        (45, TYPE::IPSECKEY, "IPSECKEY"),
        (46, TYPE::RRSIG, "RRSIG"),
        (47, TYPE::NSEC, "NSEC"),
        (48, TYPE::DNSKEY, "DNSKEY"),
        (49, TYPE::DHCID, "DHCID"),
        (63, TYPE::ZONEMD, "ZONEMD"),
        (64, TYPE::SVCB, "SVCB"),
        (65, TYPE::HTTPS, "HTTPS"),
        (108, TYPE::EUI48, "EUI48"),
        (109, TYPE::EUI64, "EUI64"),
        (257, TYPE::CAA, "CAA"),
    ]
}

fn enum_codes(_t: Tier, shard: usize, n: usize, f: &mut dyn FnMut(u16) -> bool) {
    for c in 0..=65535u16 {
        if mine(c as usize, shard, n) && !f(c) {
            return;
        }
    }
}

fn check_code(code: &u16, case: &mut Case) -> Result<(), Fail> {
    let c = *code;
    let table = iana();
    let t = lib("TYPE::from", || TYPE::from(c))?;
    let back = lib("u16::from(TYPE)", || u16::from(t))?;
    ensure!(back == c, "c18:type-roundtrip", "u16::from(TYPE::from({})) = {}", c, back);
    let entry = table.iter().find(|e| e.0 == c);
    if let Some((_, variant, mn)) = entry {
        ensure!(t == *variant, "c18:mnemonic", "code {} should be {} but is {:?}", c, mn, t);
        ensure!(u16::from(*variant) == c, "c18:mnemonic", "{} converts to {}", mn, u16::from(*variant));
    } else {
        // a variant the table names must not also appear under another code
        ensure!(!table.iter().any(|e| e.1 == t), "c18:alias", "code {} aliases {:?}", c, t);
    }
    let supported = !matches!(t, TYPE::Unknown(_));
    case.nontrivial = supported || (251..=255).contains(&c) || c <= 300;
    case.class(if supported { "supported" } else { "unsupported" });

    // QTYPE
    let q = lib("QTYPE::try_from", || QTYPE::try_from(c))?;
    let special = (251..=255).contains(&c);
    match q {
        Ok(q) => {
            ensure!(supported || special, "c18:qtype-aliased", "unsupported question type {} accepted as {:?}", c, q);
            ensure!(u16::from(q) == c, "c18:qtype-roundtrip", "QTYPE {} converts back to {}", c, u16::from(q));
            let want = match c {
                251 => QTYPE::IXFR,
                252 => QTYPE::AXFR,
                253 => QTYPE::MAILB,
                254 => QTYPE::MAILA,
                255 => QTYPE::ANY,
                _ => QTYPE::TYPE(t),
            };
            ensure!(q == want, "c18:qtype-variant", "QTYPE::try_from({}) = {:?}", c, q);
        }
        Err(e) => {
            ensure!(!(supported || special), "c18:qtype-rejected", "QTYPE::try_from({}) = {:?}", c, e);
            let _ = e; // which error is not stated
        }
    }
    // CLASS / QCLASS
    let classes: [(u16, CLASS); 5] = [(1, CLASS::IN), (2, CLASS::CS), (3, CLASS::CH), (4, CLASS::HS), (254, CLASS::NONE)];
    let cl = lib("CLASS::try_from", || CLASS::try_from(c))?;
    match classes.iter().find(|e| e.0 == c) {
        Some((_, v)) => {
            ensure!(cl == Ok(*v), "c18:class", "CLASS::try_from({}) = {:?}", c, cl);
            ensure!(*v as u16 == c, "c18:class", "{:?} as u16 = {}", v, *v as u16);
        }
        None => ensure!(cl.is_err(), "c18:class-aliased", "CLASS::try_from({}) = {:?}", c, cl),
    }
    let qc = lib("QCLASS::try_from", || QCLASS::try_from(c))?;
    match (c, classes.iter().find(|e| e.0 == c)) {
        (255, _) => ensure!(qc == Ok(QCLASS::ANY), "c18:qclass", "QCLASS::try_from(255) = {:?}", qc),
        (_, Some((_, v))) => ensure!(qc == Ok(QCLASS::CLASS(*v)), "c18:qclass", "QCLASS::try_from({}) = {:?}", c, qc),
        _ => ensure!(qc.is_err(), "c18:qclass-aliased", "QCLASS::try_from({}) = {:?}", c, qc),
    }
    if let Ok(q) = qc {
        ensure!(u16::from(q) == c, "c18:qclass-roundtrip", "QCLASS {} converts back to {}", c, u16::from(q));
    }
    // the same code arriving in a question of a message: accepted with that very type, or the message is refused
    {
        let mut m = vec![0x18, 0x18, 0, 0, 0, 1, 0, 0, 0, 0, 0, 0, 0];
        m.extend_from_slice(&c.to_be_bytes());
        m.extend_from_slice(&[0, 1]);
        match parse(&m)? {
            Ok(p) => {
                ensure!(supported || special, "c18:qtype-aliased", "a message asking for the unsupported question type {} was accepted", c);
                ensure!(p.questions.len() == 1, "c18:question-dropped", "a message with one question of type {} parses with {} questions", c, p.questions.len());
                ensure!(u16::from(p.questions[0].qtype) == c, "c18:qtype-roundtrip", "a question of type {} is reported as {:?}", c, p.questions[0].qtype);
            }
            Err(_) => ensure!(!(supported || special), "c18:qtype-rejected", "a message asking for question type {} was refused", c),
        }
        // and as a question class
        let mut m = vec![0x18, 0x19, 0, 0, 0, 1, 0, 0, 0, 0, 0, 0, 0, 0, 1];
        m.extend_from_slice(&c.to_be_bytes());
        let class_ok = [1u16, 2, 3, 4, 254, 255].contains(&(c & 0x7fff));
        match parse(&m)? {
            Ok(p) => {
                ensure!(class_ok, "c18:qclass-aliased", "a message with question class field {:#06x} was accepted", c);
                ensure!(p.questions.len() == 1, "c18:question-dropped", "a message with one question of class {:#06x} parses with {} questions", c, p.questions.len());
                ensure!(u16::from(p.questions[0].qclass) == c & 0x7fff && p.questions[0].unicast_response == (c & 0x8000 != 0), "c18:qclass-roundtrip", "a question with class field {:#06x} is reported as {:?} / unicast {}", c, p.questions[0].qclass, p.questions[0].unicast_response);
            }
            Err(_) => ensure!(!class_ok, "c18:qclass-rejected", "a message with question class field {:#06x} was refused", c),
        }
    }
    // the infallible conversions record type -> question type and class -> question class keep the code
    let via: QTYPE = lib("QTYPE::from(TYPE)", || QTYPE::from(t))?;
    ensure!(via == QTYPE::TYPE(t) && u16::from(via) == c, "c18:type-into-qtype", "QTYPE::from(TYPE::from({})) = {:?} (code {})", c, via, u16::from(via));
    if let Ok(class) = cl {
        let via: QCLASS = lib("QCLASS::from(CLASS)", || QCLASS::from(class))?;
        ensure!(via == QCLASS::CLASS(class) && u16::from(via) == c, "c18:class-into-qclass", "QCLASS::from({:?}) = {:?} (code {})", class, via, u16::from(via));
    }
    Ok(())
}

/// (record type code, shape 0=content 1=empty, class code, origin 0=constructed 1=parsed)
type MatchIn = (u16, u8, u16, u8); // shape 2 = NULL variant carrying the code; origin 2/3 = owned copy of constructed/parsed

fn match_codes() -> Vec<u16> {
    let mut v: Vec<u16> = iana().iter().map(|e| e.0).collect();
    // 251..=255 are question-only codes: a *record* of such a type is outside the statement
    v.extend([19, 99, 250, 256, 4096, 32768, 65280, 65534, 65535]);
    v
}

fn enum_match(_t: Tier, shard: usize, n: usize, f: &mut dyn FnMut(MatchIn) -> bool) {
    let mut i = 0;
    for code in match_codes() {
        for shape in 0..3u8 {
            for class in CLASSES {
                // origins 4..8: the same four with the cache-flush bit set (class field 0x8000 | class on the wire)
                for origin in 0..8u8 {
                    i += 1;
                    if mine(i, shard, n) && !f((code, shape, class, origin)) {
                        return;
                    }
                }
            }
        }
    }
}

/// a typed OPT record (constructed): its class member is what class matching is about, whatever its UDP size
fn check_opt_record(class: u16, case: &mut Case) -> Result<(), Fail> {
    use simple_dns::rdata::{OPTCode, RData, OPT};
    case.nontrivial = true;
    for udp in [0u16, 1, 3, 4, 254, 255, 512, 1232, 65535] {
        let rr = simple_dns::ResourceRecord::new(
            simple_dns::Name::new_unchecked(""),
            class_of(class).unwrap(),
            0,
            RData::OPT(OPT { opt_codes: vec![OPTCode { code: 10, data: std::borrow::Cow::Borrowed(&[1, 2][..]) }], udp_packet_size: udp, version: 0 }),
        );
        ensure!(rr.rdata.type_code() == TYPE::OPT, "c18:type-code", "an OPT record reports {:?}", rr.rdata.type_code());
        for qc in [1u16, 2, 3, 4, 254, 255] {
            let want = qc == 255 || qc == class;
            let got = lib("match_qclass", || rr.match_qclass(qclass_of(qc).unwrap()))?;
            ensure!(got == want, "c18:match-qclass", "OPT record of class {} (udp size {}) vs question class {}: match_qclass = {}", class, udp, qc, got);
        }
        for (q, want) in [(QTYPE::ANY, true), (QTYPE::TYPE(TYPE::OPT), true), (QTYPE::TYPE(TYPE::A), false), (QTYPE::MAILB, false)] {
            let got = lib("match_qtype", || rr.match_qtype(q))?;
            ensure!(got == want, "c18:match-qtype", "OPT record vs question {:?}: match_qtype = {}", q, got);
        }
    }
    Ok(())
}

fn check_match(input: &MatchIn, case: &mut Case) -> Result<(), Fail> {
    let (code, shape, class, origin) = *input;
    let flush = origin >= 4;
    let origin = origin % 4;
    case.nontrivial = true;
    if code == 41 {
        return if shape == 0 && origin == 0 && !flush { check_opt_record(class, case) } else { Ok(()) };
    }
    let rdata = if shape == 1 {
        ARData::Empty { code }
    } else if shape == 2 {
        // the catch-all NULL variant may be constructed with any code, also a supported one
        if origin % 2 == 1 && is_typed(code) {
            // (on the wire such a record is indistinguishable from the typed one: construction only)
            return Ok(());
        }
        ARData::Unknown { code, data: Bytes(vec![0xde, 0xad]) }
    } else if is_typed(code) {
        default_typed(code)
    } else {
        ARData::Unknown { code, data: Bytes(vec![1, 2, 3]) }
    };
    let mut rec = record_of(rdata);
    rec.class = class;
    rec.cache_flush = flush;
    let ap = packet_with_answer(rec.clone());
    let wire = encode_message(&ap, &EncOpts::plain());
    let built;
    let parsed;
    let owned;
    let rr = if origin % 2 == 0 {
        built = lib("build_record", || build_record(&rec))?.map_err(|e| Fail::new("harness:build", e))?;
        &built
    } else {
        // whether the parser accepts this encoding is not this property's business (no claim if it does not)
        parsed = match parse(&wire)? {
            Ok(p) if p.answers.len() == 1 => p,
            _ => {
                case.class("reference-encoding-not-parsed:no-claim");
                return Ok(());
            }
        };
        &parsed.answers[0]
    };
    // origins 2 and 3: the owned copy of the constructed / parsed record
    let rr = if origin >= 2 {
        owned = lib("into_owned", || rr.clone().into_owned())?;
        &owned
    } else {
        rr
    };
    case.class(format!("origin{}{}", origin, if flush { "-flush" } else { "" }));
    // class and cache-flush bit are separate things: the class member is the record's class whatever the bit is
    // (whether the bit itself survives construction, parsing or copying is not this statement's claim)
    ensure!(Some(rr.class) == class_of(class).ok(), "c18:class", "record of class {} (cache-flush {}) reports class {:?}", class, flush, rr.class);
    // reported type
    let tc = lib("type_code", || rr.rdata.type_code())?;
    ensure!(tc == TYPE::from(code), "c18:type-code", "record of wire type {} reports {:?}, TYPE::from gives {:?}", code, tc, TYPE::from(code));
    ensure!(u16::from(tc) == code, "c18:type-code", "record of wire type {} reports code {}", code, u16::from(tc));
    // question types: TYPE(t) for all named t, ANY, MAILB
    let mut qs: Vec<(QTYPE, u16)> = iana().iter().map(|e| (QTYPE::TYPE(e.1), e.0)).collect();
    qs.push((QTYPE::ANY, 255));
    qs.push((QTYPE::MAILB, 253));
    if !is_typed(code) && code != 10 {
        qs.push((QTYPE::TYPE(TYPE::Unknown(code)), code));
    }
    case.extra_evals = qs.len() as u64 + 6;
    for (q, qcode) in qs {
        let want = qcode == 255 || qcode == code || (qcode == 253 && [7, 8, 9].contains(&code));
        let got = lib("match_qtype", || rr.match_qtype(q))?;
        ensure!(got == want, "c18:match-qtype", "record type {} vs question {:?}: match_qtype = {}", code, q, got);
    }
    for qc in [1u16, 2, 3, 4, 254, 255] {
        let q = qclass_of(qc).unwrap();
        let want = qc == 255 || qc == class;
        let got = lib("match_qclass", || rr.match_qclass(q))?;
        ensure!(got == want, "c18:match-qclass", "record class {} vs question class {}: match_qclass = {}", class, qc, got);
    }
    Ok(())
}

/// records obtained by parsing anything the parser accepts (mutated encodings): the reported type is the wire TYPE
/// field of that entry, and matching follows it
fn check_parsed_types(input: &super::c01::Mutated, case: &mut Case) -> Result<(), Fail> {
    let bytes = super::c01::render_mutated(input);
    let Some(p) = parse_if_accepted(&bytes, case) else { return Ok(()) };
    let Ok(w) = walk(&bytes) else {
        case.class("walker-fails:no-claim");
        return Ok(());
    };
    case.class("accepted");
    let mut lifted_opt = p.opt().is_some();
    for (sec, recs) in [(0usize, &p.answers), (1, &p.name_servers), (2, &p.additional_records)] {
        let mut wire: Vec<&WRecord> = w.section(sec).collect();
        if sec == 2 && lifted_opt {
            if wire.iter().filter(|r| r.rtype == 41).count() >= 2 {
                // which of several OPT-typed entries a reader shows as the EDNS data is its own business
                // (C09 speaks of one): the entries of this section cannot be aligned without guessing
                case.class("several-opt-entries:no-claim-for-the-additional-section");
                continue;
            }
            if let Some(i) = wire.iter().position(|r| r.rtype == 41) {
                wire.remove(i);
                lifted_opt = false;
            }
        }
        if wire.len() != recs.len() {
            // counts are C05's / C08's business
            case.class("count-differs:no-claim");
            return Ok(());
        }
        for (wr, rr) in wire.iter().zip(recs.iter()) {
            // the entry the library shows at this index must be the entry the walker framed there (where each entry
            // begins is C05's statement): the owner names serve as the witness
            if oname(&rr.name) != wr.name.aname() {
                case.class("entries-not-aligned-with-the-framing:no-claim");
                return Ok(());
            }
            case.nontrivial = true;
            let tc = lib("type_code", || rr.rdata.type_code())?;
            ensure!(u16::from(tc) == wr.rtype && tc == TYPE::from(wr.rtype), "c18:type-code-parsed", "an entry with TYPE field {} is reported as {:?}; message {}", wr.rtype, tc, hex(&bytes[..bytes.len().min(120)]));
            if wr.rtype != 41 {
                let own = lib("match_qtype", || rr.match_qtype(QTYPE::TYPE(TYPE::from(wr.rtype))))?;
                ensure!(own, "c18:match-qtype-parsed", "a parsed record of TYPE {} does not match a question for its own type", wr.rtype);
                let mailb = lib("match_qtype", || rr.match_qtype(QTYPE::MAILB))?;
                ensure!(mailb == [7u16, 8, 9].contains(&wr.rtype), "c18:match-qtype-parsed", "a parsed record of TYPE {} vs MAILB: {}", wr.rtype, mailb);
                let null = lib("match_qtype", || rr.match_qtype(QTYPE::TYPE(TYPE::NULL)))?;
                ensure!(null == (wr.rtype == 10), "c18:match-qtype-parsed", "a parsed record of TYPE {} vs a NULL question: {}", wr.rtype, null);
                let cls = wr.class_raw & 0x7fff;
                if let Ok(c) = class_of(cls) {
                    ensure!(rr.class == c, "c18:class-parsed", "an entry with CLASS field {:#06x} is reported as class {:?}", wr.class_raw, rr.class);
                    for qc in [1u16, 3, 255] {
                        let got = lib("match_qclass", || rr.match_qclass(qclass_of(qc).unwrap()))?;
                        ensure!(got == (qc == 255 || qc == cls), "c18:match-qclass-parsed", "an entry with CLASS field {:#06x} vs question class {}: {}", wr.class_raw, qc, got);
                    }
                }
            }
        }
    }
    Ok(())
}

pub fn def() -> CheckDef {
    CheckDef {
        id: "C18",
        rule: "exhaustive: all 65536 codes through TYPE/QTYPE/CLASS/QCLASS conversions against an independently typed IANA table, and as the QTYPE / QCLASS field of a one-question message (accepted with that very code, or refused); (record type: 40 supported + NULL + 9 unknown codes) x {content, empty, catch-all NULL variant carrying the code} x 5 classes x {constructed, parsed, owned copy of each} x {cache-flush bit clear, set} x (41 named question types + ANY + MAILB + own unknown type) and x 6 question classes. Plus, proptest: mutated reference encodings (as C01/C11) that the parser accepts: every parsed record reports the TYPE and CLASS field of its wire entry (located by the independent envelope walker) and matches its own type, MAILB, a NULL question and question classes accordingly. Non-trivial = supported/special/low code; every matching case",
        assumptions: vec![
            "IANA RR TYPE registry values typed into checks/c18.rs",
            "the statement is silent on MAILA/AXFR/IXFR matching; not checked",
        ],
        sections: vec![
            Box::new(EnumSection { name: "codes", rule: "all 16-bit codes", enumerate: enum_codes, check: check_code, exhaustive: true }),
            Box::new(EnumSection { name: "matching", rule: "full record x question matrices", enumerate: enum_match, check: check_match, exhaustive: true }),
            Box::new(PropSection { name: "parsed-types", rule: "type and class of records parsed from mutated encodings", strategy: super::c01::mutated_strategy, cases: (150_000, 1_500_000), check: check_parsed_types }),
        ],
    }
}

//! C19 — TXT text and attribute conversions are lossless
use super::util::*;
use crate::driver::CheckDef;
use crate::ensure;
use crate::refmodel::*;
use crate::runner::*;
use proptest::collection::vec;
use proptest::prelude::*;
use proptest::sample::select;
use simple_dns::rdata::{RData, TXT};
use simple_dns::{CharacterString, Name, Packet, ResourceRecord, CLASS};
use std::collections::HashMap;
use std::convert::TryFrom;

/// the wire pieces of the (single) TXT answer of a serialised packet, via the reference walker
fn txt_pieces(txt: &TXT) -> Result<Vec<Vec<u8>>, Fail> {
    let mut p = Packet::new_reply(1);
    p.answers.push(ResourceRecord::new(Name::new_unchecked("t.local"), CLASS::IN, 1, RData::TXT(txt.clone())));
    let out = ser_plain(&p)?;
    let w = walk(&out).map_err(|e| Fail::new("c19:unwalkable", format!("{:?}", e)))?;
    ensure!(w.records.len() == 1 && w.end == out.len(), "c19:unwalkable", "framing broken");
    let r = &w.records[0];
    let mut pos = r.rdata_off;
    let mut pieces = Vec::new();
    while pos < r.end {
        let n = out[pos] as usize;
        ensure!(pos + 1 + n <= r.end, "c19:piece-overrun", "a character-string length octet overruns the RDATA");
        pieces.push(out[pos + 1..pos + 1 + n].to_vec());
        pos += 1 + n;
    }
    // and the library reads the same pieces back
    let back = parse(&out)?.map_err(|e| Fail::new("c19:unparseable", format!("{:?}", e)))?;
    match &back.answers[0].rdata {
        RData::TXT(t) => {
            let got: Vec<Vec<u8>> = t.verif_strings().iter().map(|s| s.verif_bytes().to_vec()).collect();
            ensure!(got == pieces, "c19:reparse-pieces", "parsed TXT strings differ from the pieces on the wire");
        }
        other => return Err(Fail::new("c19:reparse-type", format!("TXT record parsed as {:?}", other.type_code()))),
    }
    Ok(pieces)
}

// ---- 1. text

fn char_pool() -> Vec<char> {
    vec!['a', 'Z', '0', ' ', ';', '=', 'é', 'ß', '€', '漢', '😀', '\u{13b}', '\u{13d}', '\u{ff1b}', '\u{ff1d}', '\u{0}', '\\', '.', '"']
}

/// (target byte length, character stream)
type TextIn = (u16, Vec<u8>);

fn text_strategy(_t: Tier) -> BoxedStrategy<TextIn> {
    let len = prop_oneof![
        6 => (0u16..6, -6i16..=6, any::<bool>()).prop_map(|(k, d, b)| ((k * if b { 254 } else { 255 }) as i32 + d as i32).max(0) as u16),
        2 => 0u16..40,
        1 => 0u16..1600,
    ];
    (len, vec(any::<u8>(), 1..64)).boxed()
}

fn make_text(input: &TextIn) -> String {
    let (target, stream) = input;
    let pool = char_pool();
    let mut s = String::new();
    let mut i = 0;
    while s.len() < *target as usize {
        let c = pool[stream[i % stream.len()] as usize % pool.len()];
        i += 1;
        if s.len() + c.len_utf8() > *target as usize {
            // fill the remainder with ASCII so the target byte length is hit exactly
            s.push('x');
        } else {
            s.push(c);
        }
    }
    s
}

/// A conversion that was refused must leave nothing behind: before one case in four, the same thread is made to
/// join (and to read the attributes of) a record holding octets that are not UTF-8, whatever that returns.
fn refused_conversion_first(selector: usize, case: &mut Case) -> Result<(), Fail> {
    if selector % 4 != 1 {
        return Ok(());
    }
    case.class("after-a-refused-conversion");
    let junk: &[u8] = if selector % 8 == 1 { &[b'k', b'=', 0xff, 0xfe] } else { &[0xc3, b';', b'a', b'=', 0x80] };
    lib("refused conversions", || {
        if let Ok(cs) = CharacterString::new(junk) {
            let mut t = TXT::new();
            t.add_char_string(cs);
            let _ = t.clone().long_attributes();
            let _ = t.attributes();
            let _ = String::try_from(t);
        }
    })
}

fn check_text(input: &TextIn, case: &mut Case) -> Result<(), Fail> {
    let s = make_text(input);
    let bytes = s.as_bytes();
    let crosses = |chunk: usize| (1..=bytes.len() / chunk.max(1)).any(|k| k * chunk < bytes.len() && (bytes[k * chunk] & 0xC0) == 0x80);
    let lookalike = s.chars().any(|c| matches!(c, '\u{13b}' | '\u{13d}' | '\u{ff1b}' | '\u{ff1d}'));
    case.nontrivial = (bytes.len() > 254 && (crosses(254) || crosses(255))) || lookalike;
    if bytes.len() > 254 {
        case.class("multi-piece");
    }
    if crosses(254) || crosses(255) {
        case.class("char-across-boundary");
    }
    refused_conversion_first(bytes.len() + input.1.len(), case)?;
    let txt = lib("TXT::try_from(&str)", || TXT::try_from(s.as_str()))?.map_err(|e| Fail::new("c19:split-failed", format!("TXT::try_from({} bytes) = {:?}", bytes.len(), e)))?;
    let back = lib("String::try_from(TXT)", || String::try_from(txt.clone()))?;
    match back {
        Ok(b) => ensure!(b == s, "c19:text-roundtrip", "split+join of a {}-byte string returns a different string ({} bytes)", bytes.len(), b.len()),
        Err(e) => return Err(Fail::new("c19:text-roundtrip", format!("join failed: {:?}", e))),
    }
    for st in txt.verif_strings() {
        ensure!(st.verif_bytes().len() <= 255, "c19:piece-too-long", "a piece of {} bytes", st.verif_bytes().len());
    }
    let pieces = txt_pieces(&txt)?;
    ensure!(pieces.iter().all(|p| p.len() <= 255), "c19:piece-too-long", "wire piece longer than 255");
    let joined: Vec<u8> = pieces.concat();
    ensure!(joined == bytes, "c19:wire-text", "pieces on the wire concatenate to {} bytes, the string has {}", joined.len(), bytes.len());
    Ok(())
}

// ---- 2. attribute maps

/// entries (key, value) in insertion order; may contain duplicate keys
type AttrIn = Vec<(String, Option<String>)>;

fn key_strategy() -> BoxedStrategy<String> {
    prop_oneof![
        6 => "[a-z]{1,6}",
        // keys that differ only in letter case are different keys
        3 => select(vec!["path", "Path", "PATH", "k", "K", "key", "Key", "é", "É", "k ", " k", " ", "tab\t", "k\u{a0}"]).prop_map(|s| s.to_string()),
        2 => vec(select(vec!['k', ';', ' ', 'é', '\u{13d}', '.', 'K', '\u{ff1d}']), 1..5).prop_map(|v| v.into_iter().collect::<String>()),
        1 => "[a-z]{200,250}",
        // any printable ASCII except '=' (quotes, backquotes, backslashes, brackets, ...)
        3 => "[ -<>-~]{1,6}",
    ]
    .boxed()
}

fn value_strategy() -> BoxedStrategy<Option<String>> {
    prop_oneof![
        2 => Just(None),
        2 => Just(Some(String::new())),
        5 => "[a-z0-9]{1,8}".prop_map(Some),
        2 => vec(select(vec!['v', '=', ';', 'é', '\u{13b}', '😀', ' ']), 1..6).prop_map(|v| Some(v.into_iter().collect::<String>())),
        1 => "[a-z]{200,260}".prop_map(Some),
        2 => "[ -~]{1,8}".prop_map(Some),
    ]
    .boxed()
}

/// an entry whose `key[=value]` length is exactly `total` bytes
fn boundary_entry() -> BoxedStrategy<(String, Option<String>)> {
    (250usize..=258, 1usize..=40, any::<bool>(), any::<bool>())
        .prop_map(|(total, klen, with_value, multibyte)| {
            if with_value {
                let klen = klen.min(total - 1);
                let mut v = "v".repeat(total - klen - 1);
                if multibyte && v.len() >= 2 {
                    v.replace_range(0..2, "é");
                }
                ("k".repeat(klen), Some(v))
            } else {
                ("k".repeat(total), None)
            }
        })
        .boxed()
}

fn attr_strategy(_t: Tier) -> BoxedStrategy<AttrIn> {
    vec(prop_oneof![8 => (key_strategy(), value_strategy()), 1 => boundary_entry()], 0..6).boxed()
}

fn entry_len(k: &str, v: &Option<String>) -> usize {
    k.len() + v.as_ref().map(|v| v.len() + 1).unwrap_or(0)
}

fn check_attrs(input: &AttrIn, case: &mut Case) -> Result<(), Fail> {
    // the map (last insertion wins in a HashMap: build it explicitly, first occurrence kept)
    let mut map: HashMap<String, Option<String>> = HashMap::new();
    for (k, v) in input {
        map.entry(k.clone()).or_insert(v.clone());
    }
    let fits = map.iter().all(|(k, v)| entry_len(k, v) <= 255);
    case.nontrivial = map.len() >= 2 && map.values().any(|v| v.as_deref() == Some(""));
    let txt = lib("TXT::try_from(map)", || TXT::try_from(map.clone()))?;
    if !fits {
        case.class("entry-too-long");
        ensure!(txt.is_err(), "c19:overlong-accepted", "an attribute entry longer than 255 bytes was accepted");
        return Ok(());
    }
    let txt = txt.map_err(|e| Fail::new("c19:attrs-failed", format!("TXT::try_from(map) = {:?}", e)))?;
    let back = lib("TXT::attributes", || txt.attributes())?;
    ensure!(back == map, "c19:attrs-roundtrip", "attributes() returns {:?}, the map was {:?}", back, map);
    // the same map through the conversion helper of the discovery crate (InstanceInformation::into_records)
    {
        let mut info = simple_mdns::InstanceInformation::new("i".to_string());
        for (k, v) in &map {
            info = info.with_attribute(k.clone(), v.clone());
        }
        let owner = Name::new_unchecked("i._srv._tcp.local");
        let recs = lib("InstanceInformation::into_records", || info.into_records(&owner, 60))?.map_err(|e| Fail::new("c19:into-records", format!("{:?}", e)))?;
        let txts: Vec<&TXT> = recs.iter().filter_map(|r| if let RData::TXT(t) = &r.rdata { Some(t) } else { None }).collect();
        ensure!(txts.len() == 1, "c19:into-records", "{} TXT records for one attribute map", txts.len());
        let via = lib("TXT::attributes", || txts[0].attributes())?;
        ensure!(via == map, "c19:attrs-roundtrip-via-instance", "the attribute map {:?} comes back from into_records as {:?}", map, via);
    }
    // the same after a wire crossing (only for non-empty maps: an empty TXT is one empty string on the wire)
    if !map.is_empty() {
        let pieces = txt_pieces(&txt)?;
        ensure!(pieces.len() == map.len(), "c19:attrs-wire", "{} attributes became {} strings on the wire", map.len(), pieces.len());
        for p in &pieces {
            ensure!(p.len() <= 255, "c19:piece-too-long", "wire piece longer than 255");
        }
    }
    // duplicates: explicit string list in the given order, first occurrence wins
    let mut t2 = TXT::new();
    let mut owned: Vec<String> = Vec::new();
    for (k, v) in input {
        if entry_len(k, v) > 255 {
            return Ok(());
        }
        owned.push(match v {
            Some(v) => format!("{}={}", k, v),
            None => k.clone(),
        });
    }
    for s in &owned {
        t2 = lib("TXT::with_string", || t2.clone().with_string(s))?.map_err(|e| Fail::new("c19:with-string", format!("{:?}", e)))?;
    }
    if input.len() != map.len() {
        case.class("duplicate-keys");
    }
    let back2 = lib("TXT::attributes", || t2.attributes())?;
    ensure!(back2 == map, "c19:first-wins", "string list {:?} gives {:?}, expected first-occurrence map {:?}", owned, back2, map);
    Ok(())
}

// ---- 3. long attribute strings

fn long_strategy(_t: Tier) -> BoxedStrategy<String> {
    (
        vec(select(vec!['k', 'v', 'x', ';', '=', '\u{13b}', '\u{13d}', '\u{ff1b}', '\u{ff1d}', 'é', ' ', '\u{23b}', '\u{103d}', '😀']), 0..40),
        // optional padding that moves the interesting part across the 254-byte piece boundaries
        prop_oneof![3 => Just(0usize), 2 => (0usize..5, 0usize..8).prop_map(|(k, d)| (k * 254 + 250 + d).saturating_sub(8))],
        select(vec!['p', 'é']),
    )
        .prop_map(|(v, pad, padc)| {
            let mut s = String::new();
            while s.len() < pad {
                s.push(padc);
            }
            s.extend(v);
            s
        })
        .boxed()
}

/// reference splitter: at ';' characters, then at the first '=' character; empty keys skipped; first wins
fn ref_long(s: &str) -> HashMap<String, Option<String>> {
    let mut m = HashMap::new();
    for part in s.split(';') {
        let (k, v) = match part.find('=') {
            Some(i) => (&part[..i], Some(part[i + 1..].to_string())),
            None => (part, None),
        };
        if !k.is_empty() {
            m.entry(k.to_string()).or_insert(v);
        }
    }
    m
}

fn check_long(s: &String, case: &mut Case) -> Result<(), Fail> {
    case.nontrivial = s.chars().any(|c| (c as u32) > 0xff && matches!((c as u32) & 0xff, 0x3b | 0x3d));
    if s.len() > 254 {
        case.class("multi-piece");
    }
    refused_conversion_first(s.len(), case)?;
    let txt = lib("TXT::try_from(&str)", || TXT::try_from(s.as_str()))?.map_err(|e| Fail::new("c19:split-failed", format!("{:?}", e)))?;
    let got = lib("TXT::long_attributes", || txt.long_attributes())?.map_err(|e| Fail::new("c19:long-failed", format!("{:?}", e)))?;
    let want = ref_long(s);
    ensure!(got == want, "c19:long-attributes", "long_attributes({:?}) = {:?}, expected {:?} (split only at ';' and the first '=')", s, got, want);
    Ok(())
}

// ---- 4. construction limits

fn enum_lengths(_t: Tier, shard: usize, n: usize, f: &mut dyn FnMut((u16, u8)) -> bool) {
    let mut i = 0;
    for len in 0..=300u16 {
        // fill 1 = the string is delimited by double quotes, fill 2 = by single quotes, fill 3 = starts with a backslash
        for fill in [b'a', 0xffu8, 0x00, b'=', 1, 2, 3] {
            i += 1;
            if mine(i, shard, n) && !f((len, fill)) {
                return;
            }
        }
    }
}

fn check_length(input: &(u16, u8), case: &mut Case) -> Result<(), Fail> {
    let (len, fill) = *input;
    let len = len as usize;
    case.nontrivial = (250..=260).contains(&len);
    let bytes = match fill {
        1 | 2 => {
            let q = if fill == 1 { b'"' } else { b'\'' };
            let mut b = vec![b'q'; len];
            if len >= 1 {
                b[0] = q;
                b[len - 1] = q;
            }
            b
        }
        3 => {
            let mut b = vec![b'b'; len];
            if len >= 1 {
                b[0] = b'\\';
            }
            b
        }
        f => vec![f; len],
    };
    let want_ok = len <= 255;
    let c = lib("CharacterString::new", || CharacterString::new(&bytes).map(|c| c.verif_bytes().to_vec()))?;
    ensure!(c.is_ok() == want_ok, "c19:construct", "CharacterString::new({} bytes).is_ok() = {}", len, c.is_ok());
    if let Ok(b) = c {
        ensure!(b == bytes, "c19:construct-content", "constructed string holds different bytes");
    }
    if fill < 0x80 {
        let s = String::from_utf8(bytes.clone()).unwrap();
        let a = lib("CharacterString::try_from(&str)", || CharacterString::try_from(s.as_str()).map(|c| c.verif_bytes().len()))?;
        ensure!(a.is_ok() == want_ok && *a.as_ref().unwrap_or(&len) == len, "c19:construct", "try_from(&str of {} bytes) = {:?}", len, a);
        let b = lib("CharacterString::try_from(String)", || CharacterString::try_from(s.clone()).map(|c| c.verif_bytes().len()))?;
        ensure!(b.is_ok() == want_ok && *b.as_ref().unwrap_or(&len) == len, "c19:construct", "try_from(String of {} bytes) = {:?}", len, b);
        let mut t = TXT::new();
        let r = lib("TXT::add_string", || t.add_string(&s))?;
        ensure!(r.is_ok() == want_ok, "c19:construct", "TXT::add_string({} bytes).is_ok() = {}", len, r.is_ok());
        let w = lib("TXT::with_string", || TXT::new().with_string(&s).map(|_| ()))?;
        ensure!(w.is_ok() == want_ok, "c19:construct", "TXT::with_string({} bytes).is_ok() = {}", len, w.is_ok());
        if want_ok {
            let pieces = txt_pieces(&t)?;
            ensure!(pieces == vec![bytes.clone()], "c19:construct-wire", "a {}-byte string reaches the wire as {:?} pieces", len, pieces.iter().map(|p| p.len()).collect::<Vec<_>>());
        } else {
            // nothing may reach the wire shortened: the refused string left the record empty
            ensure!(t.verif_strings().is_empty(), "c19:truncated", "a refused {}-byte string left {} strings in the record", len, t.verif_strings().len());
        }
    }
    Ok(())
}

pub fn def() -> CheckDef {
    CheckDef {
        id: "C19",
        rule: "(1) proptest: Unicode strings of byte length k*254+d and k*255+d (k 0..5, d -6..6) and others up to 1600, over {ASCII, ';', '=', 2/3/4-byte characters, U+013B, U+013D, U+FF1B, U+FF1D, NUL}: String::try_from(TXT::try_from(s)) == s, every piece <= 255 bytes, the serialised record walks (reference walker) into pieces whose concatenation is s and the library re-parses exactly those pieces. (2) attribute lists (keys non-empty without '=', values absent / empty / non-empty, unusual characters, entries around 255 bytes, duplicate keys): TXT::try_from(map).attributes() == map (None vs Some(\"\") kept), string lists with duplicates give the first-occurrence map, entries > 255 bytes refused. (3) attribute strings over {k,v,x,';','=',U+013B,U+013D,U+FF1B,U+FF1D,U+023B,U+103D,...}: long_attributes() equals a reference splitter working on chars. (4) exhaustive: lengths 0..=300 x 4 fill bytes for CharacterString::new / try_from(&str) / try_from(String) / TXT::add_string / with_string: Ok iff <= 255, content intact on the wire, nothing left behind when refused. Non-trivial = multi-piece text with a character across a chunk boundary or a look-alike character / map with >= 2 entries incl. an empty value / look-alike present / length 250..=260",
        assumptions: vec!["the empty key is not generated (RFC 6763 6.4: ignored); an empty map is not sent over the wire here (C15 owns that)"],
        sections: vec![
            Box::new(PropSection { name: "text", rule: "split / join", strategy: text_strategy, cases: (200_000, 2_000_000), check: check_text }),
            Box::new(PropSection { name: "attributes", rule: "attribute maps", strategy: attr_strategy, cases: (200_000, 2_000_000), check: check_attrs }),
            Box::new(PropSection { name: "long-attributes", rule: "semicolon separated attribute strings", strategy: long_strategy, cases: (200_000, 2_000_000), check: check_long }),
            Box::new(EnumSection { name: "lengths", rule: "construction limits", enumerate: enum_lengths, check: check_length, exhaustive: true }),
        ],
    }
}

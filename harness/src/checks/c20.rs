//! C20 — cached discovery records expire on time
use super::util::*;
use crate::bridge::*;
use crate::driver::CheckDef;
use crate::refmodel::*;
use crate::runner::*;
use proptest::collection::vec;
use proptest::prelude::*;
use proptest::sample::select;
use simple_dns::ResourceRecord;
use simple_mdns::verif::{DomainResourceFilter, ResourceRecordManager};
use std::time::{Duration, Instant};

#[derive(Debug, Clone, PartialEq, Eq, Hash, serde::Serialize, serde::Deserialize)]
pub enum TOp {
    AddAuth(u8),
    AddCached(u8, u32, bool),
    /// the same, but the record crosses the wire and is ingested by the receive loop's own function
    Receive(u8, u32, bool),
    Remove(u8),
    Clear,
    /// virtual time: age every cached entry by this many milliseconds
    Advance(u32),
    /// real time
    Sleep(u16),
}

fn nm(s: &str) -> AName {
    AName(s.split('.').map(|l| Bytes(l.as_bytes().to_vec())).collect())
}

fn records() -> Vec<ARecord> {
    let a = |ip: u32| ARData::Typed { code: 1, fields: vec![Val::U32(ip)] };
    let mk = |owner: &str, rdata: ARData| ARecord { name: nm(owner), class: 1, cache_flush: false, ttl: 0, rdata };
    vec![
        mk("x.local", a(1)),
        mk("x.local", ARData::Typed { code: 16, fields: vec![Val::Strs(vec![Bytes(b"k=v".to_vec())])] }),
        mk("y.x.local", a(2)),
        mk("y.x.local", ARData::Typed { code: 33, fields: vec![Val::U16(0), Val::U16(0), Val::U16(80), Val::Name(nm("y.x.local"))] }),
        mk("z.local", a(3)),
        mk("z.local", a(4)),
        // two owner names whose reversed labels concatenate to the same text (localcab)
        mk("ab.c.local", a(5)),
        mk("b.ca.local", a(6)),
        // the CHAOS-class twin of record 0 (same owner, same rdata)
        ARecord { class: 3, ..mk("x.local", a(1)) },
        // more records under one owner (per-owner tables of 3, 4, 5 entries)
        mk("x.local", a(7)),
        mk("x.local", a(8)),
        // types the library has no variant for, and empty RDATA
        mk("z.local", ARData::Unknown { code: 256, data: Bytes(vec![1, 2, 3]) }),
        mk("z.local", ARData::Unknown { code: 65280, data: Bytes(vec![9]) }),
        // (empty RDATA under a type the library has a variant for: for an opaque type the value built by hand and
        // the value the parser returns for the same wire record need not be one store key, which is not this
        // property's subject)
        mk("y.x.local", ARData::Empty { code: 28 }),
        mk("y.x.local", ARData::Unknown { code: 250, data: Bytes(vec![7]) }),
        // owners outside .local (unicast names travel through the same cache)
        mk("p.example", a(11)),
        mk("q.p.example", a(12)),
        mk("LOCAL.example.com", a(13)),
    ]
}

const QNAMES: [&str; 11] = ["x.local", "y.x.local", "z.local", "local", "w.local", "ab.c.local", "b.ca.local", "c.local", "p.example", "example", "LOCAL.example.com"];

#[derive(Clone, Copy, PartialEq, Debug)]
enum MKind {
    Auth,
    /// (virtual ms at reception, real instants bracketing the reception, life in ms)
    Cached { v_add: u64, t0: Instant, t1: Instant, life_ms: u64 },
}

fn filter_of(k: usize) -> (DomainResourceFilter, bool, bool, bool, &'static str) {
    // (filter, subdomains, admits authoritative, admits cached, name)
    match k {
        0 => (DomainResourceFilter::authoritative(false), false, true, false, "authoritative(false)"),
        1 => (DomainResourceFilter::authoritative(true), true, true, false, "authoritative(true)"),
        2 => (DomainResourceFilter::cached(), true, false, true, "cached()"),
        _ => (DomainResourceFilter::all(), true, true, true, "all()"),
    }
}

fn run_history(ops: &[TOp], case: &mut Case, allow_sleep: bool) -> Result<(), Fail> {
    let recs = records();
    let built: Vec<ResourceRecord<'static>> = recs.iter().map(|r| build_record(r).map(|x| x.into_owned())).collect::<Result<_, _>>().map_err(|e| Fail::new("harness:build", e))?;
    let mut store = ResourceRecordManager::new();
    let mut model: Vec<Option<MKind>> = vec![None; recs.len()];
    let mut vnow: u64 = 0;
    let mut crossed = false;
    let mut undetermined = 0u64;
    let mut claims = 0u64;
    let qnames: Vec<simple_dns::Name<'static>> = QNAMES.iter().map(|s| lname(&nm(s)).into_owned()).collect();

    for (step, op) in ops.iter().enumerate() {
        match op {
            TOp::AddAuth(i) => {
                let i = *i as usize % recs.len();
                let rr = built[i].clone();
                lib("add_authoritative_resource", || store.add_authoritative_resource(rr))?;
                model[i] = Some(MKind::Auth);
            }
            TOp::AddCached(i, ttl, flush) => {
                let i = *i as usize % recs.len();
                let mut rr = built[i].clone();
                rr.ttl = *ttl;
                rr.cache_flush = *flush;
                let t0 = Instant::now();
                lib("add_cached_resource", || store.add_cached_resource(rr))?;
                let t1 = Instant::now();
                // locally registered records never expire and never become cache entries
                if model[i] != Some(MKind::Auth) {
                    let life_ms = if *flush { 1000 } else { *ttl as u64 * 1000 };
                    model[i] = Some(MKind::Cached { v_add: vnow, t0, t1, life_ms });
                }
            }
            TOp::Receive(i, ttl, flush) => {
                let i = *i as usize % recs.len();
                // the datagram as it arrives: written by the reference encoder (what the library's own writer would
                // have put on the wire is not this property's subject), TTL and cache-flush bit as given
                let mut arrived = recs[i].clone();
                arrived.ttl = *ttl;
                arrived.cache_flush = *flush;
                let bytes = encode_message(&APacket { id: 0, flags: 0x8400, answers: vec![arrived], ..Default::default() }, &EncOpts::compressed());
                let parsed = match parse(&bytes) {
                    Ok(Ok(p)) => p,
                    _ => {
                        // a parser that refuses a well-formed response is C02's / C10's business: the history ends here
                        case.class("response-not-parsed:no-claim");
                        return Ok(());
                    }
                };
                // the receiving discoverer watches the record's top-level domain (local, example, com)
                let tld = String::from_utf8_lossy(&recs[i].name.0.last().map(|l| l.0.clone()).unwrap_or_default()).to_string();
                let service = lname(&nm(&tld)).into_owned();
                let own = lname(&nm(&format!("self.{}", tld))).into_owned();
                let t0 = Instant::now();
                lib("add_response_to_resources", || simple_mdns::verif::verif_add_response_to_resources(parsed, &service, &own, &mut store, &mut None))?;
                let t1 = Instant::now();
                if model[i] != Some(MKind::Auth) {
                    let life_ms = if *flush { 1000 } else { *ttl as u64 * 1000 };
                    model[i] = Some(MKind::Cached { v_add: vnow, t0, t1, life_ms });
                }
            }
            TOp::Remove(i) => {
                let i = *i as usize % recs.len();
                lib("remove_resource_record", || store.remove_resource_record(&built[i]))?;
                model[i] = None;
            }
            TOp::Clear => {
                lib("clear", || store.clear())?;
                model.iter_mut().for_each(|m| *m = None);
            }
            TOp::Advance(ms) => {
                lib("verif_age", || store.verif_age(Duration::from_millis(*ms as u64)))?;
                vnow += *ms as u64;
            }
            TOp::Sleep(ms) => {
                if allow_sleep {
                    std::thread::sleep(Duration::from_millis(*ms as u64));
                }
            }
        }
        // query everything after every operation
        for (qi, qn) in qnames.iter().enumerate() {
            let qname = nm(QNAMES[qi]);
            for fk in 0..4 {
                let (filter, sub, adm_auth, adm_cached, fname) = filter_of(fk);
                let tq0 = Instant::now();
                let got: Vec<ARecord> = lib("get_domain_resources", || store.get_domain_resources(qn, filter).flatten().map(observe_record).collect())?;
                let tq1 = Instant::now();
                for (i, r) in recs.iter().enumerate() {
                    let name_ok = r.name == qname || (sub && super::c13::is_subdomain(&r.name, &qname));
                    let present = got.iter().any(|g| g.name == r.name && g.rdata == r.rdata && g.class == r.class);
                    let by_state: Option<bool> = {
                        match model[i] {
                            None => Some(false),
                            Some(MKind::Auth) => Some(adm_auth),
                            Some(MKind::Cached { v_add, t0, t1, life_ms }) => {
                                if !adm_cached {
                                    Some(false)
                                } else {
                                    let v = (vnow - v_add) as u128 * 1_000_000;
                                    let age_min = v + tq0.saturating_duration_since(t1).as_nanos();
                                    let age_max = v + tq1.saturating_duration_since(t0).as_nanos();
                                    let life = life_ms as u128 * 1_000_000;
                                    if age_max < life {
                                        Some(true)
                                    } else if age_min >= life {
                                        crossed = true;
                                        Some(false)
                                    } else {
                                        None
                                    }
                                }
                            }
                        }
                    };
                    // Which owner names a query covers is not this statement's business (C13 owns that): a record
                    // of another owner makes no claim unless it is returned although removed, expired, or of a kind
                    // the filter excludes.
                    let expect = if name_ok {
                        by_state
                    } else if by_state == Some(false) {
                        Some(false)
                    } else {
                        continue;
                    };
                    claims += 1;
                    // Completeness (must be present) is only asserted where the statement implies it: for the
                    // record's own name, or for an ancestor that itself owns an entry of the store. (The
                    // statement bounds what cache queries may return and says authoritative records do not
                    // disappear; it does not promise that an ancestor without entries finds its descendants.)
                    let reachable = r.name == qname || recs.iter().enumerate().any(|(j, o)| o.name == qname && model[j].is_some());
                    match expect {
                        None => undetermined += 1,
                        Some(true) if !reachable => {
                            case.class("ancestor-without-entry:no-completeness-claim");
                        }
                        Some(e) if e == present => {}
                        Some(e) => {
                            let kind = match model[i] {
                                None => "not in the store".to_string(),
                                Some(MKind::Auth) => "authoritative".to_string(),
                                Some(MKind::Cached { v_add, life_ms, .. }) => format!("cached, life {} ms, age >= {} ms", life_ms, vnow - v_add),
                            };
                            let sig = match (model[i], e) {
                                (Some(MKind::Auth), true) => "c20:authoritative-missing",
                                (Some(MKind::Auth), false) => "c20:authoritative-in-cache-query",
                                (Some(MKind::Cached { .. }), true) => "c20:cached-missing",
                                (Some(MKind::Cached { life_ms: 0, .. }), false) => "c20:ttl0-returned",
                                (Some(MKind::Cached { .. }), false) if adm_cached => "c20:expired-returned",
                                (Some(MKind::Cached { .. }), false) => "c20:cached-in-authoritative-query",
                                (None, _) => "c20:removed-returned",
                            };
                            return Err(Fail::new(
                                sig,
                                format!("after step {} ({:?}): query {} with {} {} record #{} ({} {}), which is {}", step, op, QNAMES[qi], fname, if present { "returns" } else { "does not return" }, i, r.name.render(), r.rdata.code(), kind),
                            ));
                        }
                    }
                }
            }
        }
    }
    case.classes.sort();
    case.classes.dedup();
    case.extra_evals = claims;
    case.nontrivial = crossed;
    if crossed {
        case.class("expiry-crossed");
    }
    if undetermined > 0 {
        case.class("had-undetermined-claims");
        case.max("undetermined_claims", undetermined as f64);
    }
    Ok(())
}

fn check_virtual(ops: &Vec<TOp>, case: &mut Case) -> Result<(), Fail> {
    run_history(ops, case, false)
}

fn check_real(ops: &Vec<TOp>, case: &mut Case) -> Result<(), Fail> {
    run_history(ops, case, true)
}

fn virtual_strategy(_t: Tier) -> BoxedStrategy<Vec<TOp>> {
    let op = prop_oneof![
        2 => (0u8..18).prop_map(TOp::AddAuth),
        4 => (0u8..18, select(vec![0u32, 1, 2, 3600]), proptest::bool::weighted(0.3)).prop_map(|(i, t, f)| TOp::AddCached(i, t, f)),
        3 => (0u8..18, select(vec![0u32, 1, 2, 3600]), proptest::bool::weighted(0.4)).prop_map(|(i, t, f)| TOp::Receive(i, t, f)),
        1 => (0u8..18).prop_map(TOp::Remove),
        1 => Just(TOp::Clear),
        6 => select(vec![0u32, 1, 499, 999, 1000, 1001, 2000, 3_599_999, 3_600_000]).prop_map(TOp::Advance),
    ];
    vec(op, 0..16).boxed()
}

fn real_strategy(_t: Tier) -> BoxedStrategy<Vec<TOp>> {
    let op = prop_oneof![
        1 => (0u8..18).prop_map(TOp::AddAuth),
        3 => (0u8..18, select(vec![0u32, 1, 2]), proptest::bool::weighted(0.3)).prop_map(|(i, t, f)| TOp::AddCached(i, t, f)),
        3 => (0u8..18, select(vec![0u32, 1, 2]), proptest::bool::weighted(0.4)).prop_map(|(i, t, f)| TOp::Receive(i, t, f)),
        1 => (0u8..18).prop_map(TOp::Remove),
        4 => select(vec![250u16, 600, 1050]).prop_map(TOp::Sleep),
    ];
    vec(op, 2..8)
        .prop_map(|mut v| {
            // at most ~3 s of sleeping per history
            let mut total = 0u32;
            v.retain(|o| match o {
                TOp::Sleep(ms) => {
                    total += *ms as u32;
                    total <= 3000
                }
                _ => true,
            });
            v
        })
        .boxed()
}

pub fn def() -> CheckDef {
    CheckDef {
        id: "C20",
        rule: "model-based histories over 18 records (up to 5 under one owner; three owners outside .local; unknown type codes 250 / 256 / 65280 and empty RDATA included) on x.local / y.x.local / z.local, two names whose store keys collide (ab.c.local / b.ca.local) and a CHAOS-class twin of one record: add-authoritative, add-cached(ttl in {0,1,2,3600}, cache-flush) either directly or as a record that crosses the wire in a compressed packet and is ingested by the receive loop's add_response_to_resources, re-add, remove, clear and time advances {0,1,499,999,1000,1001,2000,3599999,3600000 ms}; after every step every (name in {x.local,y.x.local,z.local,local,w.local,ab.c.local,b.ca.local,c.local,p.example,example,LOCAL.example.com}) x (authoritative(false), authoritative(true), cached(), all()) query is compared with a reference model holding explicit reception instants: a cached record must be returned while certainly younger than its life (ttl, or 1 s with cache-flush) and must not be returned once certainly older; ttl 0 is never returned; authoritative records are returned by authoritative filters at every time, never by cached(), and stay authoritative when the same record is received from the network; removal / clear are immediate. Virtual time = additive ageing hook verif_age; each claim is made only if measured monotonic time around the calls proves it (else counted as undetermined). A second section runs short histories on the real clock with sleeps and no ageing. Non-trivial = a cached record was observed after its expiry was crossed",
        assumptions: vec![
            "verif_age(d) subtracts d from every stored instant; the store only compares stored instants with Instant::now(), so this equals advancing the clock (cross-checked by the real-clock section)",
            "claims whose outcome depends on the few microseconds a call takes are withheld and counted (coverage.maxima.undetermined_claims)",
        ],
        sections: vec![
            Box::new(PropSection { name: "virtual-time", rule: "histories with the ageing hook", strategy: virtual_strategy, cases: (150_000, 2_000_000), check: check_virtual }),
            Box::new(PropSection { name: "real-clock", rule: "histories with real sleeps", strategy: real_strategy, cases: (32, 256), check: check_real }),
        ],
    }
}

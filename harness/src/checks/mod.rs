//! one module per property
use crate::driver::CheckDef;
use std::path::Path;

pub mod util;
pub mod c08;
pub mod c17;
pub mod c18;

pub fn ids() -> Vec<&'static str> {
    vec!["C08", "C17", "C18"]
}

pub fn get(id: &str) -> Option<CheckDef> {
    Some(match id {
        "C08" => c08::def(),
        "C17" => c17::def(),
        "C18" => c18::def(),
        _ => return None,
    })
}

pub fn emit_corpus(_dir: &Path) {}

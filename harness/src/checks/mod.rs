//! one module per property
use crate::driver::CheckDef;
use std::path::Path;

pub mod util;
pub mod c01;
pub mod c02;
pub mod c03;
pub mod c04;
pub mod c05;
pub mod c06;
pub mod c07;
pub mod c08;
pub mod c09;
pub mod c10;
pub mod c11;
pub mod c12;
pub mod c13;
pub mod c14;
pub mod c15;
pub mod c16;
pub mod c17;
pub mod c18;
pub mod c19;
pub mod c20;

pub fn ids() -> Vec<&'static str> {
    vec!["C01", "C02", "C03", "C04", "C05", "C06", "C07", "C08", "C09", "C10", "C11", "C12", "C13", "C14", "C15", "C16", "C17", "C18", "C19", "C20"]
}

pub fn get(id: &str) -> Option<CheckDef> {
    Some(match id {
        "C01" => c01::def(),
        "C02" => c02::def(),
        "C03" => c03::def(),
        "C04" => c04::def(),
        "C05" => c05::def(),
        "C06" => c06::def(),
        "C07" => c07::def(),
        "C08" => c08::def(),
        "C09" => c09::def(),
        "C10" => c10::def(),
        "C11" => c11::def(),
        "C12" => c12::def(),
        "C13" => c13::def(),
        "C14" => c14::def(),
        "C15" => c15::def(),
        "C16" => c16::def(),
        "C17" => c17::def(),
        "C18" => c18::def(),
        "C19" => c19::def(),
        "C20" => c20::def(),
        _ => return None,
    })
}

pub fn emit_corpus(_dir: &Path) {}

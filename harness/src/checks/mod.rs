//! one module per property
use crate::driver::CheckDef;
use std::path::Path;

pub mod util;
pub mod c01;
pub mod c02;
pub mod c03;
pub mod c04;
pub mod c05;
pub mod c06;
pub mod c07;
pub mod c08;
pub mod c09;
pub mod c10;
pub mod c11;
pub mod c12;
pub mod c13;
pub mod c14;
pub mod c15;
pub mod c16;
pub mod c17;
pub mod c18;
pub mod c19;
pub mod c20;

pub fn ids() -> Vec<&'static str> {
    vec!["C01", "C02", "C03", "C04", "C05", "C06", "C07", "C08", "C09", "C10", "C11", "C12", "C13", "C14", "C15", "C16", "C17", "C18", "C19", "C20"]
}

pub fn get(id: &str) -> Option<CheckDef> {
    Some(match id {
        "C01" => c01::def(),
        "C02" => c02::def(),
        "C03" => c03::def(),
        "C04" => c04::def(),
        "C05" => c05::def(),
        "C06" => c06::def(),
        "C07" => c07::def(),
        "C08" => c08::def(),
        "C09" => c09::def(),
        "C10" => c10::def(),
        "C11" => c11::def(),
        "C12" => c12::def(),
        "C13" => c13::def(),
        "C14" => c14::def(),
        "C15" => c15::def(),
        "C16" => c16::def(),
        "C17" => c17::def(),
        "C18" => c18::def(),
        "C19" => c19::def(),
        "C20" => c20::def(),
        _ => return None,
    })
}

/// seed corpora for the fuzz targets, emitted from the reference model (nothing is stored in git)
pub fn emit_corpus(dir: &Path, target: &str) {
    use crate::refmodel::*;
    let _ = std::fs::create_dir_all(dir);
    let put = |name: String, bytes: &[u8]| {
        let _ = std::fs::write(dir.join(name), bytes);
    };
    match target {
        "name" => {
            put("n0".into(), b"\x03www\x07example\x03com\x00\x01a\xc0\x04\xc0\x11");
            put("n1".into(), &[0xc0, 0x00]);
            put("n2".into(), &[63; 64]);
            let mut long = Vec::new();
            for _ in 0..4 {
                long.push(63);
                long.extend_from_slice(&[b'x'; 63]);
            }
            long.push(0);
            long.extend_from_slice(&[0xc0, 0x00]);
            put("n3".into(), &long);
        }
        "mdns_datagram" => {
            let frame = |msgs: &[Vec<u8>]| -> Vec<u8> {
                let mut out = Vec::new();
                for m in msgs {
                    out.extend_from_slice(&(m.len() as u16).to_be_bytes());
                    out.extend_from_slice(m);
                }
                out
            };
            let q = |name: &[&str], qtype: u16| encode_message(&APacket { id: 5, questions: vec![AQuestion { name: AName::from_strs(name), qtype, qclass: 1, unicast: true }], ..Default::default() }, &EncOpts::plain());
            let mut resp = APacket { id: 0, flags: 0x8400, ..Default::default() };
            for (i, r) in c13::catalogue().into_iter().enumerate() {
                let mut r = r;
                r.name = AName::from_strs(&[["peer", "x", "y"][i % 3], "_srv", "_tcp", "local"]);
                resp.answers.push(r);
            }
            put("d0".into(), &frame(&[q(&["canary", "local"], 1), q(&["_my", "local"], 255), q(&["local"], 33)]));
            put("d1".into(), &frame(&[encode_message(&resp, &EncOpts::compressed()), q(&["_srv", "_tcp", "local"], 255)]));
            put("d2".into(), &frame(&[vec![], vec![0; 5], vec![0xff; 12]]));
        }
        "build_rt" => {
            put("b0".into(), &[0u8; 64]);
            put("b1".into(), &(0..=255u8).collect::<Vec<_>>());
        }
        _ => {
            for (i, (_label, m)) in c01::base_messages(1).into_iter().enumerate() {
                put(format!("base{:03}", i), &m);
            }
            let repo = std::env::var("VERIF_REPO").unwrap_or_else(|_| "/repo".into());
            if let Ok(rd) = std::fs::read_dir(Path::new(&repo).join("simple-dns/samples/zonefile")) {
                for e in rd.flatten() {
                    if let Ok(b) = std::fs::read(e.path()) {
                        let mut m = vec![0, 1, 0x80, 0, 0, 0, 0, 1, 0, 0, 0, 0];
                        m.extend_from_slice(&b);
                        put(format!("sample-{}", e.file_name().to_string_lossy()), &m);
                    }
                }
            }
        }
    }
}

//! helpers shared by the checks
use crate::meter;
use crate::refmodel::*;
use crate::runner::{Bytes, Fail};
use simple_dns::Packet;

/// call into the library under panic capture
pub fn lib<T>(what: &str, f: impl FnOnce() -> T) -> Result<T, Fail> {
    meter::catch(f).map_err(|p| {
        let mut fail: Fail = p.into();
        fail.msg = format!("{}: {}", what, fail.msg);
        fail
    })
}

pub fn parse<'a>(buf: &'a [u8]) -> Result<simple_dns::Result<Packet<'a>>, Fail> {
    lib("Packet::parse", || Packet::parse(buf))
}

/// split the work of an enumeration over shards
pub fn mine(i: usize, shard: usize, nshards: usize) -> bool {
    i % nshards == shard
}

/// a neutral value for every field kind (used to make one record per type)
pub fn default_val(kind: Kind) -> Val {
    match kind {
        Kind::U8 => Val::U8(0),
        Kind::U16 => Val::U16(0),
        Kind::U24 | Kind::U32 => Val::U32(0),
        Kind::U48 => Val::U64(0),
        Kind::Fixed(n) => Val::Bytes(Bytes(vec![0; n])),
        Kind::Name(_) => Val::Name(AName::from_strs(&["a", "example"])),
        Kind::CharStr => Val::Bytes(Bytes(b"s".to_vec())),
        Kind::Rest => Val::Bytes(Bytes(vec![1, 2, 3])),
        Kind::CharStrList => Val::Strs(vec![Bytes(b"k=v".to_vec())]),
        Kind::Pairs { .. } => Val::Pairs(vec![(1, Bytes(vec![9]))]),
        Kind::Windows => Val::Windows(vec![(0, Bytes(vec![0x40]))]),
        Kind::GwType => unreachable!(),
        Kind::Gateway => Val::Gateway(Gw::None),
    }
}

pub fn default_typed(code: u16) -> ARData {
    let info = type_info(code).expect("typed");
    ARData::Typed {
        code,
        fields: value_fields(info).map(|f| default_val(f.kind)).collect(),
    }
}

pub fn record_of(rdata: ARData) -> ARecord {
    ARecord {
        name: AName::from_strs(&["x", "example"]),
        class: 1,
        cache_flush: false,
        ttl: 300,
        rdata,
    }
}

pub fn packet_with_answer(r: ARecord) -> APacket {
    APacket {
        id: 7,
        flags: 0x8000,
        answers: vec![r],
        ..Default::default()
    }
}

//! helpers shared by the checks
use crate::meter;
use crate::refmodel::*;
use crate::runner::{Bytes, Fail};
use simple_dns::Packet;

/// call into the library under panic capture
pub fn lib<T>(what: &str, f: impl FnOnce() -> T) -> Result<T, Fail> {
    meter::catch(f).map_err(|p| {
        let mut fail: Fail = p.into();
        fail.msg = format!("{}: {}", what, fail.msg);
        fail
    })
}

pub fn parse<'a>(buf: &'a [u8]) -> Result<simple_dns::Result<Packet<'a>>, Fail> {
    lib("Packet::parse", || Packet::parse(buf))
}

/// For checks whose statement only speaks about inputs the parser accepted: a refusal makes no claim, and neither
/// does a panic (or stall, or heap excess) inside the parser itself — that is C01's statement, not theirs.
pub fn parse_if_accepted<'a>(buf: &'a [u8], case: &mut Case) -> Option<Packet<'a>> {
    match parse(buf) {
        Ok(Ok(p)) => Some(p),
        Ok(Err(_)) => {
            case.class("rejected");
            None
        }
        Err(_) => {
            case.class("parser-did-not-return-cleanly:no-claim-here");
            None
        }
    }
}

/// split the work of an enumeration over shards
pub fn mine(i: usize, shard: usize, nshards: usize) -> bool {
    i % nshards == shard
}

/// a neutral value for every field kind (used to make one record per type)
pub fn default_val(kind: Kind) -> Val {
    match kind {
        Kind::U8 => Val::U8(0),
        Kind::U16 => Val::U16(0),
        Kind::U24 | Kind::U32 => Val::U32(0),
        Kind::U48 => Val::U64(0),
        Kind::Fixed(n) => Val::Bytes(Bytes(vec![0; n])),
        Kind::Name(_) => Val::Name(AName::from_strs(&["a", "example"])),
        Kind::CharStr => Val::Bytes(Bytes(b"s".to_vec())),
        Kind::Rest => Val::Bytes(Bytes(vec![1, 2, 3])),
        Kind::CharStrList => Val::Strs(vec![Bytes(b"k=v".to_vec())]),
        Kind::Pairs { .. } => Val::Pairs(vec![(1, Bytes(vec![9]))]),
        Kind::Windows => Val::Windows(vec![(0, Bytes(vec![0x40]))]),
        Kind::GwType => unreachable!(),
        Kind::Gateway => Val::Gateway(Gw::None),
    }
}

pub fn default_typed(code: u16) -> ARData {
    let info = type_info(code).expect("typed");
    ARData::Typed {
        code,
        fields: value_fields(info).map(|f| default_val(f.kind)).collect(),
    }
}

pub fn record_of(rdata: ARData) -> ARecord {
    ARecord {
        name: AName::from_strs(&["x", "example"]),
        class: 1,
        cache_flush: false,
        ttl: 300,
        rdata,
    }
}

pub fn packet_with_answer(r: ARecord) -> APacket {
    APacket {
        id: 7,
        flags: 0x8000,
        answers: vec![r],
        ..Default::default()
    }
}

// ---------------------------------------------------------------------------------------------
// the C01 oracle: no panic, bounded heap, terminates

pub const HEAP_BASE: usize = 64 * 1024;
pub const HEAP_PER_BYTE: usize = 1024;
pub const HEAP_HARD_CAP: usize = 1 << 30;
pub const CPU_LIMIT_S: f64 = 5.0;

/// Parse `b` under all three instruments. Returns whether the parser accepted the input.
pub fn guarded_parse(b: &[u8], case: &mut Case) -> Result<bool, Fail> {
    let t0 = meter::thread_cpu_ns();
    let (r, heap) = meter::measure(b, HEAP_HARD_CAP, || meter::catch(|| Packet::parse(b).map(|p| p.questions.len() + p.answers.len() + p.name_servers.len() + p.additional_records.len())));
    let dt = (meter::thread_cpu_ns() - t0) as f64 / 1e6;
    case.max("cpu_ms_per_case", dt);
    case.max("heap_bytes_per_input_byte", heap.peak as f64 / b.len().max(1) as f64);
    let accepted = match r {
        Err(p) => {
            let mut f: Fail = p.into();
            f.msg = format!("Packet::parse panicked on {} bytes {}: {}", b.len(), crate::runner::hex(&b[..b.len().min(120)]), f.msg);
            return Err(f);
        }
        Ok(Ok(_)) => true,
        Ok(Err(_)) => false,
    };
    let bound = HEAP_BASE + HEAP_PER_BYTE * b.len();
    if heap.peak > bound {
        return Err(Fail::new(
            "c01:heap",
            format!("Packet::parse held {} heap bytes for a {}-byte input (bound {}): {}", heap.peak, b.len(), bound, crate::runner::hex(&b[..b.len().min(64)])),
        ));
    }
    if dt / 1000.0 > CPU_LIMIT_S {
        return Err(Fail::new("c01:cpu", format!("Packet::parse took {:.1} CPU-ms on {} bytes", dt, b.len())));
    }
    Ok(accepted)
}

use crate::runner::Case;
use simple_dns::{header_buffer, PacketFlag};

/// the eight header-peek functions must return Ok/Err on any buffer
pub fn peek_all(b: &[u8]) -> Result<(), Fail> {
    lib("header_buffer::id", || header_buffer::id(b).is_ok())?;
    lib("header_buffer::questions", || header_buffer::questions(b).is_ok())?;
    lib("header_buffer::answers", || header_buffer::answers(b).is_ok())?;
    lib("header_buffer::name_servers", || header_buffer::name_servers(b).is_ok())?;
    lib("header_buffer::additional_records", || header_buffer::additional_records(b).is_ok())?;
    lib("header_buffer::has_flags", || header_buffer::has_flags(b, PacketFlag::RESPONSE).is_ok())?;
    lib("header_buffer::rcode", || header_buffer::rcode(b).is_ok())?;
    lib("header_buffer::opcode", || header_buffer::opcode(b).is_ok())?;
    Ok(())
}

// ---------------------------------------------------------------------------------------------
// serialisation helpers

pub fn ser_plain(pk: &Packet) -> Result<Vec<u8>, Fail> {
    lib("build_bytes_vec", || pk.build_bytes_vec())?.map_err(|e| Fail::new("ser:plain-failed", format!("build_bytes_vec: {:?}", e)))
}

pub fn ser_compressed(pk: &Packet) -> Result<Vec<u8>, Fail> {
    lib("build_bytes_vec_compressed", || pk.build_bytes_vec_compressed())?
        .map_err(|e| Fail::new("ser:compressed-failed", format!("build_bytes_vec_compressed: {:?}", e)))
}

/// parse and observe, mapping rejection to a failure with the given signature
pub fn reparse(bytes: &[u8], sig: &str, what: &str) -> Result<APacket, Fail> {
    let p = parse(bytes)?.map_err(|e| {
        Fail::new(sig, format!("{} rejected by the parser: {:?} ({} bytes, head {})", what, e, bytes.len(), crate::runner::hex(&bytes[..bytes.len().min(96)])))
    })?;
    lib("observe", || crate::bridge::observe(&p))
}

/// view an abstract packet the way the library's enums can show it (unnamed codes -> Reserved)
pub fn as_library_shows(mut p: APacket) -> APacket {
    if !NAMED_OPCODES.contains(&p.opcode) {
        p.opcode = OPCODE_RESERVED;
    }
    if !NAMED_RCODES.contains(&p.rcode) {
        p.rcode = RCODE_RESERVED;
    }
    p
}

//! Command line: `vp run <id> --tier quick|thorough`, `vp replay <file>`, `vp list`
use crate::checks;
use crate::runner::*;
use serde_json::{json, Value};
use std::collections::{BTreeMap, HashSet};
use std::path::{Path, PathBuf};
use std::sync::atomic::{AtomicBool, AtomicU64};
use std::sync::Mutex;
use std::time::Instant;

/// (property, replay dir) of the run in progress, for the out-of-band reporters (watchdog)
pub static RUN_INFO: Mutex<Option<(String, PathBuf)>> = Mutex::new(None);

pub struct CheckDef {
    pub id: &'static str,
    pub rule: &'static str,
    pub assumptions: Vec<&'static str>,
    pub sections: Vec<Box<dyn Section>>,
}

fn verif_dir() -> PathBuf {
    std::env::var_os("VERIF_DIR")
        .map(PathBuf::from)
        .unwrap_or_else(|| PathBuf::from("/verif"))
}

fn load_known(dir: &Path) -> Vec<KnownFinding> {
    let p = dir.join("known_findings.json");
    match std::fs::read_to_string(&p) {
        Ok(s) => {
            let v: Value = serde_json::from_str(&s).expect("known_findings.json is not valid JSON");
            serde_json::from_value(v["findings"].clone()).expect("known_findings.json: bad findings array")
        }
        Err(_) => Vec::new(),
    }
}

pub fn make_ctx(property: &str, tier: Tier) -> Ctx {
    let dir = verif_dir();
    let seed = std::env::var("VERIF_SEED")
        .ok()
        .and_then(|s| s.trim().parse::<i64>().ok())
        .map(|v| v as u64)
        .unwrap_or(20260926);
    let threads = std::env::var("VERIF_THREADS")
        .ok()
        .and_then(|s| s.parse().ok())
        .unwrap_or_else(|| std::thread::available_parallelism().map(|n| n.get()).unwrap_or(8).min(16));
    let replay_dir = std::env::var_os("VERIF_REPLAY_DIR")
        .map(PathBuf::from)
        .unwrap_or_else(|| dir.join("replays"));
    Ctx {
        property: property.to_string(),
        tier,
        seed,
        threads,
        known: load_known(&dir),
        verif_dir: dir,
        replay_dir,
        stop: AtomicBool::new(false),
        printed_known: Mutex::new(HashSet::new()),
        replay_counter: AtomicU64::new(0),
    }
}

/// Run `vp <args>` as a child process. A stack overflow or an abort inside the library cannot be caught
/// in-process, so `run` and `replay` execute in a child and the parent interprets a death by signal.
fn spawn_child(args: &[String], env: &[(&str, String)], quiet: bool) -> Option<std::process::ExitStatus> {
    let exe = std::env::current_exe().ok()?;
    let mut c = std::process::Command::new(exe);
    c.args(&args[1..]).env("VERIF_CHILD", "1");
    for (k, v) in env {
        c.env(k, v);
    }
    if quiet {
        c.stdout(std::process::Stdio::null()).stderr(std::process::Stdio::null());
    }
    c.status().ok()
}

fn died(st: &std::process::ExitStatus) -> Option<String> {
    use std::os::unix::process::ExitStatusExt;
    if let Some(sig) = st.signal() {
        return Some(format!("signal {}", sig));
    }
    match st.code() {
        Some(c) if c == 0 || c == 1 || c == 2 => None,
        Some(c) => Some(format!("exit status {}", c)),
        None => Some("unknown".into()),
    }
}

fn supervise_run(args: &[String]) -> i32 {
    let id = args.get(2).cloned().unwrap_or_default();
    let Some(st) = spawn_child(args, &[], false) else {
        eprintln!("HARNESS-ERROR: cannot start the child process");
        return 2;
    };
    let Some(how) = died(&st) else { return st.code().unwrap_or(2) };
    // the run died (stack overflow, abort, ...): run it again with every worker journaling the case in flight
    eprintln!("[{}] the checking process died ({}); running again with a journal of the cases in flight", id, how);
    let replay_dir = std::env::var_os("VERIF_REPLAY_DIR").map(PathBuf::from).unwrap_or_else(|| verif_dir().join("replays"));
    let jdir = replay_dir.join(format!("journal-{}", id));
    let _ = std::fs::remove_dir_all(&jdir);
    let _ = std::fs::create_dir_all(&jdir);
    let Some(st2) = spawn_child(args, &[("VERIF_JOURNAL", jdir.to_string_lossy().to_string())], false) else { return 2 };
    if died(&st2).is_none() {
        let _ = std::fs::remove_dir_all(&jdir);
        if st2.code() == Some(0) {
            println!("INCONCLUSIVE property={} the checking process died once ({}) and completed on a second run", id, how);
            return 2;
        }
        return st2.code().unwrap_or(2);
    }
    // each journal file holds the case its thread was evaluating: replay them one by one in a child
    let mut files: Vec<PathBuf> = std::fs::read_dir(&jdir).map(|rd| rd.flatten().map(|e| e.path()).collect()).unwrap_or_default();
    files.sort();
    let mut k = 0;
    for f in files {
        let Ok(text) = std::fs::read_to_string(&f) else { continue };
        let Ok(v) = serde_json::from_str::<Value>(&text) else { continue };
        let section = v["section"].as_str().unwrap_or("").to_string();
        let path = replay_dir.join(format!("{}-{}-crash-{}.json", id, section, k));
        k += 1;
        let rep = json!({
            "property": id, "section": section, "signature": "crash:process-died",
            "message": format!("the process evaluating this case died ({}): stack overflow or abort inside a library call", how),
            "input": v["input"],
        });
        let _ = std::fs::write(&path, serde_json::to_string_pretty(&rep).unwrap() + "\n");
        let rargs = vec![args[0].clone(), "replay".to_string(), path.to_string_lossy().to_string()];
        match spawn_child(&rargs, &[], true) {
            Some(st3) if died(&st3).is_some() => {
                let _ = std::fs::remove_dir_all(&jdir);
                println!("FAIL section={} sig=crash:process-died :: a library call kills the process on this input ({})", section, died(&st3).unwrap());
                println!("VIOLATION property={} replay={}", id, path.display());
                return 1;
            }
            _ => {
                let _ = std::fs::remove_file(&path);
            }
        }
    }
    let _ = std::fs::remove_dir_all(&jdir);
    println!("INCONCLUSIVE property={} the checking process died twice ({}), but no single case in flight reproduces it alone", id, how);
    2
}

fn supervise_replay(args: &[String]) -> i32 {
    let path = args.get(2).cloned().unwrap_or_default();
    let Some(st) = spawn_child(args, &[], false) else { return 2 };
    match died(&st) {
        None => st.code().unwrap_or(2),
        Some(how) => {
            let id = std::fs::read_to_string(&path).ok().and_then(|s| serde_json::from_str::<Value>(&s).ok()).and_then(|v| v["property"].as_str().map(|s| s.to_string())).unwrap_or_default();
            println!("FAIL crash:process-died: the process died while replaying ({})", how);
            println!("VIOLATION property={} replay={}", id, path);
            1
        }
    }
}

pub fn main() -> i32 {
    crate::meter::install_hook();
    let args: Vec<String> = std::env::args().collect();
    if std::env::var_os("VERIF_CHILD").is_none() {
        match args.get(1).map(|s| s.as_str()) {
            Some("run") => return supervise_run(&args),
            Some("replay") => return supervise_replay(&args),
            _ => {}
        }
    }
    match args.get(1).map(|s| s.as_str()) {
        Some("run") => {
            let id = args.get(2).cloned().unwrap_or_default();
            let mut tier = match std::env::var("VERIF_TIER").as_deref() {
                Ok("thorough") => Tier::Thorough,
                _ => Tier::Quick,
            };
            let mut only: Option<String> = None;
            let mut i = 3;
            while i < args.len() {
                match args[i].as_str() {
                    "--tier" => {
                        tier = if args.get(i + 1).map(|s| s.as_str()) == Some("thorough") {
                            Tier::Thorough
                        } else {
                            Tier::Quick
                        };
                        i += 1;
                    }
                    "--section" => {
                        only = args.get(i + 1).cloned();
                        i += 1;
                    }
                    _ => {}
                }
                i += 1;
            }
            run(&id, tier, only.as_deref())
        }
        Some("replay") => replay(args.get(2).map(|s| s.as_str()).unwrap_or("")),
        Some("list") => {
            for id in checks::ids() {
                let def = checks::get(id).unwrap();
                println!("{}: {}", id, def.sections.iter().map(|s| s.name().to_string()).collect::<Vec<_>>().join(" "));
            }
            0
        }
        Some("c05-render") => {
            let s = std::fs::read_to_string(&args[2]).unwrap();
            let v: Value = serde_json::from_str(&s).unwrap();
            let input = serde_json::from_value(v["input"].clone()).unwrap();
            let (m, _) = checks::c05::render(&input);
            println!("{}", hex(&m));
            println!("walk: {:?}", crate::refmodel::walk(&m).map(|w| w.records.iter().map(|r| (r.off, r.rtype, r.rdlen, r.rdata_off, r.end)).collect::<Vec<_>>()));
            println!("ref: {:?}", crate::refmodel::decode_message(&m).map(|x| x.1));
            println!("lib: {:?}", simple_dns::Packet::parse(&m).map(|p| crate::bridge::observe(&p)));
            0
        }
        Some("dict") if args.get(2).map(|s| s.as_str()) == Some("--libfuzzer") => {
            // the same dictionary in libFuzzer's -dict format: integers as big-endian byte strings, strings raw and as labels
            let d = crate::gen::dict();
            let esc = |b: &[u8]| -> String { b.iter().map(|c| format!("\\x{:02x}", c)).collect() };
            let mut lines: std::collections::BTreeSet<String> = std::collections::BTreeSet::new();
            for v in &d.ints {
                if *v <= 0xff {
                    lines.insert(esc(&[*v as u8]));
                }
                if *v <= 0xffff {
                    lines.insert(esc(&(*v as u16).to_be_bytes()));
                } else if *v <= 0xffff_ffff {
                    lines.insert(esc(&(*v as u32).to_be_bytes()));
                }
            }
            for s in &d.strs {
                lines.insert(esc(s));
                if s.len() <= 63 {
                    let mut l = vec![s.len() as u8];
                    l.extend_from_slice(s);
                    lines.insert(esc(&l));
                }
            }
            for l in lines {
                println!("\"{}\"", l);
            }
            0
        }
        Some("dict") => {
            let d = crate::gen::dict();
            println!("{} integers: {:?}", d.ints.len(), d.ints);
            println!("{} strings: {:?}", d.strs.len(), d.strs.iter().map(|s| String::from_utf8_lossy(s).to_string()).collect::<Vec<_>>());
            0
        }
        Some("corpus") => {
            let out = args.get(2).cloned().unwrap_or_else(|| "/tmp/vp-corpus".into());
            checks::emit_corpus(Path::new(&out), args.get(3).map(|s| s.as_str()).unwrap_or("parse"));
            0
        }
        _ => {
            eprintln!("usage: vp run <id> [--tier quick|thorough] [--section name] | vp replay <file> | vp list | vp corpus <dir>");
            2
        }
    }
}

fn replay(path: &str) -> i32 {
    let s = match std::fs::read_to_string(path) {
        Ok(s) => s,
        Err(e) => {
            eprintln!("cannot read {}: {}", path, e);
            return 2;
        }
    };
    let v: Value = match serde_json::from_str(&s) {
        Ok(v) => v,
        Err(e) => {
            eprintln!("bad replay file: {}", e);
            return 2;
        }
    };
    let id = v["property"].as_str().unwrap_or("");
    let section = v["section"].as_str().unwrap_or("");
    let def = match checks::get(id) {
        Some(d) => d,
        None => {
            eprintln!("unknown property {}", id);
            return 2;
        }
    };
    let ctx = make_ctx(id, Tier::Quick);
    start_stall_watchdog(id.to_string(), ctx.replay_dir.clone(), matches!(id, "C01" | "C06" | "C14"));
    set_section(section);
    for sec in &def.sections {
        if sec.name() == section {
            return match sec.replay(&v["input"]) {
                Ok(Ok(())) => {
                    println!("replay passes: property={} section={}", id, section);
                    0
                }
                Ok(Err(f)) => {
                    if ctx.is_known(&f.sig).is_some() {
                        ctx.note_known(&f.sig);
                        println!("replay fails with a known finding: {} {}", f.sig, f.msg);
                        0
                    } else {
                        println!("FAIL {}: {}", f.sig, f.msg);
                        println!("VIOLATION property={} replay={}", id, path);
                        1
                    }
                }
                Err(e) => {
                    eprintln!("HARNESS-ERROR: {}", e);
                    2
                }
            };
        }
    }
    eprintln!("unknown section {} for {}", section, id);
    2
}

/// replay every committed regression input of this property (corpus/<id>/*.json)
fn replay_corpus(ctx: &Ctx, def: &CheckDef) -> (u64, Vec<ViolationRec>, Vec<String>) {
    let dir = ctx.verif_dir.join("corpus").join(&ctx.property);
    if std::env::var_os("VERIF_NO_CORPUS").is_some() {
        // sensitivity experiments: judge the generators alone, without the saved regressions
        return (0, Vec::new(), Vec::new());
    }
    let mut n = 0;
    let mut v = Vec::new();
    let mut errs = Vec::new();
    let mut files: Vec<PathBuf> = match std::fs::read_dir(&dir) {
        Ok(rd) => rd.filter_map(|e| e.ok().map(|e| e.path())).filter(|p| p.extension().map(|x| x == "json").unwrap_or(false)).collect(),
        Err(_) => return (0, v, errs),
    };
    files.sort();
    for f in files {
        let s = std::fs::read_to_string(&f).unwrap_or_default();
        let j: Value = match serde_json::from_str(&s) {
            Ok(j) => j,
            Err(e) => {
                errs.push(format!("{}: {}", f.display(), e));
                continue;
            }
        };
        let section = j["section"].as_str().unwrap_or("");
        let Some(sec) = def.sections.iter().find(|s| s.name() == section) else {
            errs.push(format!("{}: unknown section {}", f.display(), section));
            continue;
        };
        n += 1;
        match sec.replay(&j["input"]) {
            Ok(Ok(())) => {}
            Ok(Err(fail)) => {
                if ctx.is_known(&fail.sig).is_some() {
                    ctx.note_known(&fail.sig);
                } else {
                    v.push(ViolationRec {
                        section: section.to_string(),
                        sig: fail.sig,
                        msg: fail.msg,
                        replay: f.clone(),
                    });
                }
            }
            Err(e) => errs.push(format!("{}: {}", f.display(), e)),
        }
    }
    (n, v, errs)
}

fn run(id: &str, tier: Tier, only: Option<&str>) -> i32 {
    let Some(def) = checks::get(id) else {
        eprintln!("unknown property {}", id);
        return 2;
    };
    let ctx = make_ctx(id, tier);
    let _ = std::fs::create_dir_all(&ctx.replay_dir);
    crate::meter::set_emergency(id, &ctx.replay_dir.join(format!("{}-heap-cap.json", id)).to_string_lossy());
    *RUN_INFO.lock().unwrap() = Some((id.to_string(), ctx.replay_dir.clone()));
    // termination is part of the statement for C01 (always terminates), C06 (cycles are errors) and C14 (the loop keeps running)
    start_stall_watchdog(id.to_string(), ctx.replay_dir.clone(), matches!(id, "C01" | "C06" | "C14"));
    let t0 = Instant::now();
    let mut reports = Vec::new();
    let mut violations: Vec<ViolationRec> = Vec::new();
    let mut harness_errors: Vec<String> = Vec::new();

    let (corpus_n, cv, cerrs) = replay_corpus(&ctx, &def);
    violations.extend(cv);
    harness_errors.extend(cerrs);

    for sec in &def.sections {
        if let Some(o) = only {
            if sec.name() != o {
                continue;
            }
        }
        if ctx.stop.load(std::sync::atomic::Ordering::Relaxed) {
            break;
        }
        let rep = sec.run(&ctx);
        if rep.rule == "replay only" {
            continue;
        }
        eprintln!(
            "[{}] section {:<28} evals={:<9} nontrivial={:<8} {:.1}s{}",
            id,
            rep.name,
            rep.stats.evaluations,
            rep.stats.nontrivial.len(),
            rep.wall_s,
            if rep.violations.is_empty() { "" } else { "  FAILED" }
        );
        violations.extend(rep.violations.iter().cloned());
        harness_errors.extend(rep.harness_errors.iter().cloned());
        reports.push(rep);
    }
    let wall = t0.elapsed().as_secs_f64();

    // ---- evidence
    let mut evaluations = corpus_n;
    let mut distinct = 0u64;
    let mut samples: Vec<Value> = Vec::new();
    let mut classes = BTreeMap::new();
    let mut excluded = BTreeMap::new();
    let mut known_hits: BTreeMap<String, u64> = BTreeMap::new();
    let mut maxima = BTreeMap::new();
    let mut secs = Vec::new();
    let mut all_exhaustive = !reports.is_empty();
    for r in &reports {
        evaluations += r.stats.evaluations;
        distinct += r.stats.nontrivial.len() as u64;
        for s in r.stats.nontrivial_samples.iter().take(2) {
            samples.push(json!({"section": r.name, "case": s}));
        }
        if r.stats.nontrivial_samples.is_empty() {
            for s in r.stats.samples.iter().take(1) {
                samples.push(json!({"section": r.name, "case": s, "trivial": true}));
            }
        }
        classes.insert(r.name.clone(), json!(r.stats.classes));
        if !r.stats.excluded.is_empty() {
            excluded.insert(r.name.clone(), json!(r.stats.excluded));
        }
        for (k, v) in &r.stats.known_hits {
            *known_hits.entry(k.clone()).or_default() += v;
        }
        for (k, v) in &r.stats.maxima {
            maxima.insert(format!("{}.{}", r.name, k), *v);
        }
        all_exhaustive &= r.exhaustive;
        secs.push(json!({
            "name": r.name, "rule": r.rule, "evaluations": r.stats.evaluations,
            "distinct_nontrivial": r.stats.nontrivial.len(), "exhaustive": r.exhaustive, "wall_s": (r.wall_s*100.0).round()/100.0
        }));
    }
    let mut coverage = json!({
        "evaluations": evaluations,
        "distinct_nontrivial": distinct,
        "rule": def.rule,
        "samples": samples,
        "sections": secs,
        "classes": classes,
        "excluded": excluded,
        "known_findings_hit": known_hits,
        "corpus_replays": corpus_n,
        "maxima": maxima,
        "threads": ctx.threads,
    });
    if all_exhaustive && only.is_none() {
        coverage["exhaustive"] = json!(true);
    }
    let evidence = json!({
        "property_id": id,
        "tier": tier.name(),
        "seed": ctx.seed as i64,
        "level": "exploration",
        "coverage": coverage,
        "assumptions": def.assumptions,
        "wall_s": (wall * 100.0).round() / 100.0,
        "violations": violations.len(),
    });
    let ev_dir = std::env::var_os("VERIF_EVIDENCE_DIR")
        .map(PathBuf::from)
        .unwrap_or_else(|| ctx.verif_dir.join("evidence"));
    let _ = std::fs::create_dir_all(&ev_dir);
    if only.is_none() {
        let _ = std::fs::write(
            ev_dir.join(format!("{}.json", id)),
            serde_json::to_string_pretty(&evidence).unwrap() + "\n",
        );
    }

    if !harness_errors.is_empty() && violations.is_empty() {
        for e in &harness_errors {
            println!("HARNESS-ERROR property={} {}", id, e);
        }
        return 2;
    }
    if !violations.is_empty() {
        // one report per signature
        let mut seen = HashSet::new();
        violations.retain(|v| seen.insert(v.sig.clone()));
        for v in &violations {
            println!("FAIL section={} sig={} :: {}", v.section, v.sig, v.msg.chars().take(600).collect::<String>());
            println!("VIOLATION property={} replay={}", id, v.replay.display());
        }
        return 1;
    }
    println!(
        "OK property={} tier={} evaluations={} distinct_nontrivial={} wall={:.1}s",
        id,
        tier.name(),
        evaluations,
        distinct,
        wall
    );
    0
}

//! glue for the libFuzzer targets: oracle selection, reporting, structure-aware decoding
use crate::gen::Sharing;
use crate::meter;
use crate::refmodel::*;
use crate::runner::{Bytes, Case, Fail, KnownFinding};
use arbitrary::Unstructured;
use serde::Serialize;
use std::path::PathBuf;
use std::sync::atomic::{AtomicU64, Ordering};
use std::sync::OnceLock;

pub struct Which {
    pub c01: bool,
    pub c05: bool,
    pub c11: bool,
    pub c12: bool,
}

pub fn oracle_env() -> &'static Which {
    static W: OnceLock<Which> = OnceLock::new();
    W.get_or_init(|| {
        let v = std::env::var("VP_ORACLE").unwrap_or_default();
        let has = |k: &str| v.is_empty() || v.split(',').any(|x| x.eq_ignore_ascii_case(k));
        Which { c01: has("C01"), c05: has("C05"), c11: has("C11"), c12: has("C12") }
    })
}

fn known() -> &'static Vec<KnownFinding> {
    static K: OnceLock<Vec<KnownFinding>> = OnceLock::new();
    K.get_or_init(|| {
        let dir = std::env::var("VERIF_DIR").unwrap_or_else(|_| "/verif".into());
        std::fs::read_to_string(PathBuf::from(dir).join("known_findings.json"))
            .ok()
            .and_then(|s| serde_json::from_str::<serde_json::Value>(&s).ok())
            .and_then(|v| serde_json::from_value(v["findings"].clone()).ok())
            .unwrap_or_default()
    })
}

static TOLERATED: AtomicU64 = AtomicU64::new(0);

/// run one fuzz iteration; a panic escaping the oracles is a harness error and aborts
pub fn run(_target: &str, _data: &[u8], f: impl FnOnce(&mut Case)) {
    meter::install_hook();
    let mut case = Case::default();
    if let Err(p) = meter::catch(|| f(&mut case)) {
        eprintln!("HARNESS-ERROR: panic in fuzz target at {}:{}: {}", p.file, p.line, p.msg);
        std::process::abort();
    }
}

/// a failed oracle inside a fuzz target: save the replay, print the VIOLATION line, crash
pub fn report<I: Serialize>(property: &str, section: &str, input: &I, r: Result<(), Fail>) {
    let Err(f) = r else { return };
    if f.sig.starts_with("harness:") {
        eprintln!("HARNESS-ERROR: {} {}", f.sig, f.msg);
        std::process::abort();
    }
    if known().iter().any(|k| k.property == property && k.status == "known" && k.key == f.sig) {
        TOLERATED.fetch_add(1, Ordering::Relaxed);
        return;
    }
    let dir = PathBuf::from(std::env::var("VP_FUZZ_REPLAY_DIR").unwrap_or_else(|_| "/verif/replays".into()));
    let _ = std::fs::create_dir_all(&dir);
    let safe: String = f.sig.chars().map(|c| if c.is_ascii_alphanumeric() { c } else { '_' }).take(50).collect();
    let path = dir.join(format!("{}-fuzz-{}-{}.json", property, safe, std::process::id()));
    let v = serde_json::json!({"property": property, "section": section, "signature": f.sig, "message": f.msg, "input": serde_json::to_value(input).unwrap_or_default()});
    let _ = std::fs::write(&path, serde_json::to_string_pretty(&v).unwrap());
    println!("FAIL sig={} :: {}", f.sig, f.msg.chars().take(400).collect::<String>());
    println!("VIOLATION property={} replay={}", property, path.display());
    std::process::abort();
}

// ---------------------------------------------------------------------------------------------
// Unstructured -> abstract packet (hand written; derive is not available offline)

const LABELS: [&[u8]; 10] = [b"a", b"b", b"c", b"example", b"com", b"www", b"org", b"\xff\x00.", b"x-1", b"_tcp"];

fn name(u: &mut Unstructured) -> arbitrary::Result<AName> {
    let n = u.int_in_range(0..=4usize)?;
    let mut v = Vec::new();
    for _ in 0..n {
        let k = u.int_in_range(0..=(LABELS.len() + 1))?;
        if k < LABELS.len() {
            v.push(Bytes(LABELS[k].to_vec()));
        } else {
            let len = u.int_in_range(1..=63usize)?;
            let b = u.bytes(len.min(u.len().max(1)).max(1).min(len))?.to_vec();
            if b.is_empty() {
                v.push(Bytes(vec![b'z']));
            } else {
                v.push(Bytes(b));
            }
        }
    }
    let mut n = AName(v);
    while n.wire_len() > 255 {
        n.0.remove(0);
    }
    Ok(n)
}

fn blob(u: &mut Unstructured, max: usize) -> arbitrary::Result<Bytes> {
    let len = u.int_in_range(0..=max)?;
    let len = len.min(u.len());
    Ok(Bytes(u.bytes(len)?.to_vec()))
}

fn val(u: &mut Unstructured, kind: Kind) -> arbitrary::Result<Val> {
    Ok(match kind {
        Kind::U8 => Val::U8(u.arbitrary()?),
        Kind::U16 => Val::U16(u.arbitrary()?),
        Kind::U24 => Val::U32(u.arbitrary::<u32>()? & 0xff_ffff),
        Kind::U32 => Val::U32(u.arbitrary()?),
        Kind::U48 => Val::U64(u.arbitrary::<u64>()? & 0xffff_ffff_ffff),
        Kind::Fixed(n) => {
            let mut b = vec![0u8; n];
            let got = u.bytes(n.min(u.len()))?;
            b[..got.len()].copy_from_slice(got);
            Val::Bytes(Bytes(b))
        }
        Kind::Name(_) => Val::Name(name(u)?),
        Kind::CharStr => Val::Bytes(blob(u, 255)?),
        Kind::Rest => Val::Bytes(blob(u, 64)?),
        Kind::CharStrList => {
            let n = u.int_in_range(1..=3usize)?;
            let mut v = Vec::new();
            for _ in 0..n {
                v.push(blob(u, 255)?);
            }
            Val::Strs(v)
        }
        Kind::Pairs { strict } => {
            let n = u.int_in_range(0..=3usize)?;
            let mut v: Vec<(u16, Bytes)> = Vec::new();
            for _ in 0..n {
                v.push((u.arbitrary()?, blob(u, 40)?));
            }
            if strict {
                v.sort_by_key(|p| p.0);
                v.dedup_by_key(|p| p.0);
            }
            Val::Pairs(v)
        }
        Kind::Windows => {
            let n = u.int_in_range(0..=3usize)?;
            let mut v: Vec<(u8, Bytes)> = Vec::new();
            for _ in 0..n {
                let mut b = blob(u, 32)?;
                if b.0.is_empty() {
                    b.0.push(1);
                }
                v.push((u.arbitrary()?, b));
            }
            v.sort_by_key(|p| p.0);
            v.dedup_by_key(|p| p.0);
            Val::Windows(v)
        }
        Kind::GwType => unreachable!(),
        Kind::Gateway => match u.int_in_range(0..=3u8)? {
            0 => Val::Gateway(Gw::None),
            1 => Val::Gateway(Gw::V4(Bytes(u.arbitrary::<[u8; 4]>()?.to_vec()))),
            2 => Val::Gateway(Gw::V6(Bytes(u.arbitrary::<[u8; 16]>()?.to_vec()))),
            _ => Val::Gateway(Gw::Name(name(u)?)),
        },
    })
}

fn rdata(u: &mut Unstructured) -> arbitrary::Result<ARData> {
    let codes = crate::gen::record_codes();
    let k = u.int_in_range(0..=(codes.len() + 1))?;
    if k == codes.len() {
        let mut d = blob(u, 40)?;
        if d.0.is_empty() {
            d.0.push(0);
        }
        return Ok(ARData::Unknown { code: *u.choose(&crate::gen::UNKNOWN_CODES)?, data: d });
    }
    if k > codes.len() {
        return Ok(ARData::Empty { code: *u.choose(&codes)? });
    }
    let code = codes[k];
    let info = type_info(code).unwrap();
    let mut fields = Vec::new();
    for f in value_fields(info) {
        if code == 29 && f.name == "version" {
            fields.push(Val::U8(0));
        } else {
            fields.push(val(u, f.kind)?);
        }
    }
    Ok(ARData::Typed { code, fields })
}

fn record(u: &mut Unstructured) -> arbitrary::Result<ARecord> {
    Ok(ARecord { name: name(u)?, class: *u.choose(&CLASSES)?, cache_flush: u.arbitrary()?, ttl: u.arbitrary()?, rdata: rdata(u)? })
}

fn question(u: &mut Unstructured) -> arbitrary::Result<AQuestion> {
    let qt = crate::gen::qtypes();
    Ok(AQuestion { name: name(u)?, qtype: *u.choose(&qt)?, qclass: *u.choose(&[1u16, 2, 3, 4, 254, 255])?, unicast: u.arbitrary()? })
}

pub fn apacket(u: &mut Unstructured) -> arbitrary::Result<APacket> {
    let mut p = APacket {
        id: u.arbitrary()?,
        flags: u.arbitrary::<u16>()? & FLAG_BITS,
        opcode: *u.choose(&NAMED_OPCODES)?,
        rcode: *u.choose(&NAMED_RCODES)?,
        ..Default::default()
    };
    if u.ratio(1, 3)? || p.rcode > 15 {
        let n = u.int_in_range(0..=2usize)?;
        let mut options = Vec::new();
        for _ in 0..n {
            options.push((u.arbitrary()?, blob(u, 30)?));
        }
        p.edns = Some(AEdns { udp: u.arbitrary()?, version: u.arbitrary()?, options });
    }
    for _ in 0..u.int_in_range(0..=3usize)? {
        p.questions.push(question(u)?);
    }
    for _ in 0..u.int_in_range(0..=4usize)? {
        p.answers.push(record(u)?);
    }
    for _ in 0..u.int_in_range(0..=2usize)? {
        p.authorities.push(record(u)?);
    }
    for _ in 0..u.int_in_range(0..=2usize)? {
        p.additionals.push(record(u)?);
    }
    Ok(p)
}

pub fn sharing_from_bytes(data: &[u8]) -> Option<Sharing> {
    let mut u = Unstructured::new(data);
    let filler = match u.int_in_range(0..=15u8).ok()? {
        0 => 16200 + u.int_in_range(0..=300u32).ok()?,
        1 => u.int_in_range(1..=60000u32).ok()?,
        _ => 0,
    };
    let filler_at = u.arbitrary().ok()?;
    let packet = apacket(&mut u).ok()?;
    Some(Sharing { packet, filler, filler_at })
}

//! proptest strategies for the abstract model
use crate::refmodel::*;
use crate::runner::Bytes;
use proptest::collection::vec;
use proptest::prelude::*;
use proptest::sample::select;

// ---------------------------------------------------------------------------------------------
// a dictionary harvested from the sources under test (as fuzzers do): every integer, character and
// short string literal of simple-dns/src and simple-mdns/src, with its neighbours v-1 / v+1. A
// guard on a magic value (an option code, a type code, a threshold, a label) puts that value into
// the tree, and thereby into the generators. Pure function of the working tree.

pub struct Dict {
    pub ints: Vec<u64>,
    pub strs: Vec<Vec<u8>>,
}

fn scan_source(text: &str, ints: &mut std::collections::BTreeSet<u64>, strs: &mut std::collections::BTreeSet<Vec<u8>>) {
    let b = text.as_bytes();
    let mut i = 0;
    while i < b.len() {
        let c = b[i];
        // line comments (doc comments included) are skipped: prose is not code
        if c == b'/' && i + 1 < b.len() && b[i + 1] == b'/' {
            while i < b.len() && b[i] != b'\n' {
                i += 1;
            }
            continue;
        }
        if c == b'"' {
            let mut j = i + 1;
            let mut lit = Vec::new();
            while j < b.len() && b[j] != b'"' {
                if b[j] == b'\\' && j + 1 < b.len() {
                    j += 1;
                    match b[j] {
                        b'n' => lit.push(b'\n'),
                        b'0' => lit.push(0),
                        b'x' if j + 2 < b.len() => {
                            if let Ok(v) = u8::from_str_radix(&text[j + 1..j + 3], 16) {
                                lit.push(v);
                            }
                            j += 2;
                        }
                        x => lit.push(x),
                    }
                } else {
                    lit.push(b[j]);
                }
                j += 1;
            }
            if !lit.is_empty() && lit.len() <= 24 && !lit.contains(&b' ') && !lit.contains(&b'{') {
                strs.insert(lit);
            }
            i = j + 1;
            continue;
        }
        if c == b'\'' && i + 2 < b.len() {
            // 'x' or '\x' (lifetimes like 'a have no closing quote right after)
            if b[i + 2] == b'\'' && b[i + 1] != b'\\' {
                ints.insert(b[i + 1] as u64);
                i += 3;
                continue;
            }
        }
        if c.is_ascii_digit() && (i == 0 || !(b[i - 1].is_ascii_alphanumeric() || b[i - 1] == b'_' || b[i - 1] == b'.')) {
            let mut j = i;
            while j < b.len() && (b[j].is_ascii_alphanumeric() || b[j] == b'_') {
                j += 1;
            }
            let tok: String = text[i..j].chars().filter(|c| *c != '_').collect();
            let tok = tok.trim_end_matches(|c: char| !c.is_ascii_hexdigit() || false).to_string();
            let mut t = tok.as_str();
            for suf in ["usize", "isize", "u128", "u64", "u32", "u16", "u8", "i128", "i64", "i32", "i16", "i8"] {
                if let Some(x) = t.strip_suffix(suf) {
                    t = x;
                }
            }
            let v = if let Some(h) = t.strip_prefix("0x") {
                u64::from_str_radix(h, 16).ok()
            } else if let Some(bn) = t.strip_prefix("0b") {
                u64::from_str_radix(bn, 2).ok()
            } else if let Some(o) = t.strip_prefix("0o") {
                u64::from_str_radix(o, 8).ok()
            } else {
                t.parse::<u64>().ok()
            };
            if let Some(v) = v {
                ints.insert(v);
            }
            i = j;
            continue;
        }
        i += 1;
    }
}

pub fn dict() -> &'static Dict {
    static D: std::sync::OnceLock<Dict> = std::sync::OnceLock::new();
    D.get_or_init(|| {
        // the tree the harness was built against: bin/check points harness/.repo at it
        let repo = std::env::var("VERIF_REPO").unwrap_or_else(|_| {
            let link = concat!(env!("CARGO_MANIFEST_DIR"), "/.repo");
            if std::path::Path::new(link).join("simple-dns/src").is_dir() {
                link.to_string()
            } else {
                "/repo".into()
            }
        });
        let mut ints = std::collections::BTreeSet::new();
        let mut strs = std::collections::BTreeSet::new();
        let mut stack = vec![std::path::PathBuf::from(&repo).join("simple-dns/src"), std::path::PathBuf::from(&repo).join("simple-mdns/src")];
        while let Some(d) = stack.pop() {
            let Ok(rd) = std::fs::read_dir(&d) else { continue };
            let mut entries: Vec<_> = rd.flatten().map(|e| e.path()).collect();
            entries.sort();
            for p in entries {
                if p.is_dir() {
                    stack.push(p);
                } else if p.extension().map(|x| x == "rs").unwrap_or(false) {
                    if let Ok(text) = std::fs::read_to_string(&p) {
                        // the unit tests at the bottom of each file are not the code under test
                        let code = text.split("#[cfg(test)]").next().unwrap_or("");
                        scan_source(code, &mut ints, &mut strs);
                    }
                }
            }
        }
        // derived values: complements of masks
        let raw: Vec<u64> = ints.iter().copied().collect();
        for &v in &raw {
            if (0x80..=0xff).contains(&v) {
                ints.insert(0xff - v);
            }
            if (0x100..=0xffff).contains(&v) {
                ints.insert(0xffff - v);
            }
        }
        let mut all = std::collections::BTreeSet::new();
        for v in ints {
            all.insert(v);
            all.insert(v.wrapping_add(1));
            if v > 0 {
                all.insert(v - 1);
            }
        }
        Dict { ints: all.into_iter().collect(), strs: strs.into_iter().collect() }
    })
}

fn dict_ints(max: u64) -> Vec<u64> {
    let v: Vec<u64> = dict().ints.iter().copied().filter(|x| *x <= max).collect();
    if v.is_empty() {
        vec![0]
    } else {
        v
    }
}

pub fn u8b() -> BoxedStrategy<u8> {
    prop_oneof![
        3 => select(vec![0u8, 1, 0x7f, 0x80, 0xfe, 0xff]),
        2 => any::<u8>(),
        1 => select(dict_ints(255)).prop_map(|v| v as u8),
    ]
    .boxed()
}
pub fn u16b() -> BoxedStrategy<u16> {
    prop_oneof![
        3 => select(vec![0u16, 1, 0xff, 0x100, 0x7fff, 0x8000, 0xfffe, 0xffff, 0x1234]),
        2 => any::<u16>(),
        2 => select(dict_ints(65535)).prop_map(|v| v as u16),
    ]
    .boxed()
}
pub fn u32b() -> BoxedStrategy<u32> {
    prop_oneof![
        3 => select(vec![0u32, 1, 0xffff, 0x10000, 0x7fff_ffff, 0x8000_0000, 0xffff_fffe, 0xffff_ffff, 0x0102_0304]),
        2 => any::<u32>(),
        1 => select(dict_ints(u32::MAX as u64)).prop_map(|v| v as u32),
    ]
    .boxed()
}

/// a fixed list of sizes merged with the dictionary values up to `max`
pub fn sizes_u16(base: &[u16], max: u16) -> Vec<u16> {
    let mut v: Vec<u16> = base.to_vec();
    v.extend(dict_ints(max as u64).into_iter().map(|x| x as u16));
    v.sort();
    v.dedup();
    v
}

/// small sizes worth trying as lengths / counts: the dictionary values up to `max`
pub fn dict_sizes(max: u64) -> Vec<usize> {
    dict_ints(max).into_iter().map(|v| v as usize).collect()
}

/// strings of the sources usable as a label (1..=63 bytes), split at dots
pub fn dict_labels() -> Vec<Bytes> {
    let mut v: Vec<Bytes> = Vec::new();
    for s in &dict().strs {
        for piece in s.split(|c| *c == b'.') {
            if !piece.is_empty() && piece.len() <= 63 {
                v.push(Bytes(piece.to_vec()));
            }
        }
    }
    v.sort();
    v.dedup();
    if v.is_empty() {
        v.push(Bytes(b"local".to_vec()));
    }
    v
}

/// strings of the sources that read as a (relative) domain name: all their dot-separated pieces are labels
pub fn dict_names() -> Vec<AName> {
    let mut v: Vec<AName> = Vec::new();
    for s in &dict().strs {
        let pieces: Vec<&[u8]> = s.split(|c| *c == b'.').filter(|p| !p.is_empty()).collect();
        if !pieces.is_empty() && pieces.iter().all(|p| p.len() <= 63 && p.iter().all(|c| c.is_ascii_graphic())) {
            v.push(AName(pieces.iter().map(|p| Bytes(p.to_vec())).collect()));
        }
    }
    v.sort();
    v.dedup();
    if v.is_empty() {
        v.push(AName::from_strs(&["local"]));
    }
    v
}

pub fn dict_strings() -> Vec<Bytes> {
    let mut v: Vec<Bytes> = dict().strs.iter().map(|s| Bytes(s.clone())).collect();
    if v.is_empty() {
        v.push(Bytes(b"x".to_vec()));
    }
    v
}

pub fn bytes(max: usize) -> BoxedStrategy<Bytes> {
    vec(any::<u8>(), 0..=max).prop_map(Bytes).boxed()
}

/// special-purpose addresses: unspecified, loopback, IPv4-mapped / -compatible, NAT64, link-local, multicast, documentation
const SPECIAL_V4: [[u8; 4]; 8] = [[0, 0, 0, 0], [127, 0, 0, 1], [255, 255, 255, 255], [224, 0, 0, 251], [169, 254, 1, 1], [10, 0, 0, 1], [192, 0, 2, 1], [100, 64, 0, 1]];
const SPECIAL_V6: [[u8; 16]; 9] = [
    [0; 16],
    [0, 0, 0, 0, 0, 0, 0, 0, 0, 0, 0, 0, 0, 0, 0, 1],
    [0, 0, 0, 0, 0, 0, 0, 0, 0, 0, 0xff, 0xff, 192, 0, 2, 1],
    [0, 0, 0, 0, 0, 0, 0, 0, 0, 0, 0xff, 0xff, 0, 0, 0, 0],
    [0, 0, 0, 0, 0, 0, 0, 0, 0, 0, 0, 0, 10, 0, 0, 1],
    [0, 0x64, 0xff, 0x9b, 0, 0, 0, 0, 0, 0, 0, 0, 192, 0, 2, 33],
    [0xfe, 0x80, 0, 0, 0, 0, 0, 0, 0, 0, 0, 0, 0, 0, 0, 1],
    [0xff, 0x02, 0, 0, 0, 0, 0, 0, 0, 0, 0, 0, 0, 0, 0, 0xfb],
    [0x20, 0x01, 0x0d, 0xb8, 0, 0, 0, 0, 0, 0, 0, 0, 0, 0, 0, 1],
];

pub fn bytes_n(n: usize) -> BoxedStrategy<Bytes> {
    let special: Vec<Bytes> = match n {
        4 => SPECIAL_V4.iter().map(|a| Bytes(a.to_vec())).collect(),
        16 => SPECIAL_V6.iter().map(|a| Bytes(a.to_vec())).collect(),
        _ => vec![Bytes(vec![0; n]), Bytes(vec![0xff; n])],
    };
    prop_oneof![
        5 => vec(any::<u8>(), n..=n).prop_map(Bytes),
        1 => select(special),
        1 => any::<u8>().prop_map(move |b| Bytes(vec![b; n])),
    ]
    .boxed()
}

/// opaque tails: mostly short, sometimes a few hundred bytes
pub fn tail() -> BoxedStrategy<Bytes> {
    prop_oneof![
        1 => Just(Bytes(vec![])),
        6 => bytes(24),
        1 => bytes(600),
        1 => (select(dict_sizes(700)), any::<u8>()).prop_map(|(n, b)| Bytes(vec![b; n])),
        // zero-filled and zero-padded data (padding a maintainer might decide to ignore)
        1 => (0usize..=6).prop_map(|n| Bytes(vec![0; n])),
        1 => (vec(any::<u8>(), 1..=6), 1usize..=3).prop_map(|(mut v, z)| { v.extend(std::iter::repeat(0).take(z)); Bytes(v) }),
    ]
    .boxed()
}

const FRIENDLY: [&str; 12] = [
    "a", "b", "ab", "www", "example", "com", "local", "_tcp", "_udp", "_srv", "x-1", "host01",
];

/// a label: 1..=63 arbitrary bytes, biased to a small shared pool and to hostile contents
pub fn label() -> BoxedStrategy<Bytes> {
    prop_oneof![
        10 => select(FRIENDLY.to_vec()).prop_map(|s| Bytes(s.as_bytes().to_vec())),
        2 => select(vec![
            &b"a.b"[..], b"\\", b"\x00", b"\xc0", b"\xc0\x0c", b"\xff\xfe", b"a\\.b", b" ", b"*", b"\xe9", b"\xf0\x9f\x98\x80", b"A", b"Example"
        ])
        .prop_map(|s| Bytes(s.to_vec())),
        1 => vec(any::<u8>(), 1..=8).prop_map(Bytes),
        2 => select(dict_labels()),
        1 => vec(any::<u8>(), 60..=63).prop_map(Bytes),
        1 => (select(vec![b'a', b'z', 0xffu8, 0u8, b'.']), 62usize..=63).prop_map(|(c, n)| Bytes(vec![c; n])),
    ]
    .boxed()
}

fn clamp_name(mut labels: Vec<Bytes>) -> AName {
    // keep within 255 wire bytes by dropping leading labels
    while AName(labels.clone()).wire_len() > 255 {
        labels.remove(0);
    }
    AName(labels)
}

/// names with heavy suffix sharing (few labels, small pool), the root, and long ones
pub fn aname() -> BoxedStrategy<AName> {
    prop_oneof![
        1 => Just(AName(vec![])),
        12 => vec(label(), 1..=4).prop_map(clamp_name),
        1 => vec(label(), 4..=12).prop_map(clamp_name),
        1 => long_name(),
    ]
    .boxed()
}

/// names whose wire length is 250..=255
pub fn long_name() -> BoxedStrategy<AName> {
    (250usize..=255, select(vec![b'a', b'q', 0xc3u8]), select(vec![64usize, 64, 2, 3, 17])).prop_map(|(target, c, step)| {
        // wire = sum(len+1) + 1; `step` = bytes per label incl. its length octet (2 = 127 one-byte labels)
        let mut remaining = target - 1;
        let mut labels = Vec::new();
        while remaining > 0 {
            let take = remaining.min(step);
            if take < 2 {
                // cannot make a label of length 0: extend the previous label if possible
                break;
            }
            labels.push(Bytes(vec![c; take - 1]));
            remaining -= take;
        }
        AName(labels)
    })
    .boxed()
}

/// names acceptable to `Name::new` style validation (lower-case ASCII), for mDNS models
pub fn friendly_name() -> BoxedStrategy<AName> {
    vec(select(FRIENDLY.to_vec()), 1..=4)
        .prop_map(|v| AName(v.into_iter().map(|s| Bytes(s.as_bytes().to_vec())).collect()))
        .boxed()
}

pub fn charstr() -> BoxedStrategy<Bytes> {
    prop_oneof![
        1 => Just(Bytes(vec![])),
        6 => bytes(20),
        1 => vec(any::<u8>(), 250..=255).prop_map(Bytes),
        1 => select(dict_strings()),
        1 => (select(dict_strings()), select(dict_strings())).prop_map(|(k, v)| Bytes([k.0, b"=".to_vec(), v.0].concat())),
        1 => select(vec![&b"key=value"[..], b"k=", b"k", b"=v", b"\xff\xfe=\xc0", b"a;b=c", b"\x00", b"sep=\"", b"k=\"\"", b"\"", b"k=\"v\"", b"\"k\"=v", b"k='"]).prop_map(|s| Bytes(s.to_vec())),
    ]
    .boxed()
}

fn sorted_pairs(mut v: Vec<(u16, Bytes)>) -> Vec<(u16, Bytes)> {
    v.sort_by_key(|p| p.0);
    v.dedup_by_key(|p| p.0);
    v
}

fn sorted_windows(mut v: Vec<(u8, Bytes)>) -> Vec<(u8, Bytes)> {
    v.sort_by_key(|p| p.0);
    v.dedup_by_key(|p| p.0);
    v
}

pub fn val_for(kind: Kind) -> BoxedStrategy<Val> {
    val_for_n(kind, aname())
}

pub fn val_for_n(kind: Kind, names: BoxedStrategy<AName>) -> BoxedStrategy<Val> {
    match kind {
        Kind::U8 => u8b().prop_map(Val::U8).boxed(),
        Kind::U16 => u16b().prop_map(Val::U16).boxed(),
        Kind::U24 => u32b().prop_map(|v| Val::U32(v & 0x00ff_ffff)).boxed(),
        Kind::U32 => u32b().prop_map(Val::U32).boxed(),
        Kind::U48 => (u32b(), u16b()).prop_map(|(a, b)| Val::U64(((b as u64) << 32) | a as u64)).boxed(),
        Kind::Fixed(n) => bytes_n(n).prop_map(Val::Bytes).boxed(),
        Kind::Name(_) => names.prop_map(Val::Name).boxed(),
        Kind::CharStr => charstr().prop_map(Val::Bytes).boxed(),
        Kind::Rest => tail().prop_map(Val::Bytes).boxed(),
        Kind::CharStrList => vec(charstr(), 1..=4).prop_map(Val::Strs).boxed(),
        Kind::Pairs { strict } => vec((u16b(), tail()), 0..=4)
            .prop_map(move |v| Val::Pairs(if strict { sorted_pairs(v) } else { v }))
            .boxed(),
        // RFC 4034 bitmaps are 1..=32 octets; an empty one is representable (the parser accepts it), so it is generated too
        Kind::Windows => vec((u8b(), prop_oneof![1 => Just(Bytes(vec![])), 10 => vec(any::<u8>(), 1..=32).prop_map(Bytes)]), 0..=4)
            .prop_map(|v| Val::Windows(sorted_windows(v)))
            .boxed(),
        Kind::GwType => unreachable!(),
        Kind::Gateway => prop_oneof![
            Just(Gw::None),
            bytes_n(4).prop_map(Gw::V4),
            bytes_n(16).prop_map(Gw::V6),
            names.prop_map(Gw::Name),
        ]
        .prop_map(Val::Gateway)
        .boxed(),
    }
}

/// values for one typed record of `code` (LOC version fixed to 0: the writer refuses others)
pub fn typed(code: u16) -> BoxedStrategy<ARData> {
    typed_n(code, aname())
}

pub fn typed_n(code: u16, names: BoxedStrategy<AName>) -> BoxedStrategy<ARData> {
    let info = type_info(code).expect("typed code");
    let strategies: Vec<BoxedStrategy<Val>> = value_fields(info)
        .map(|f| {
            if code == 29 && f.name == "version" {
                Just(Val::U8(0)).boxed()
            } else {
                val_for_n(f.kind, names.clone())
            }
        })
        .collect();
    strategies.prop_map(move |fields| ARData::Typed { code, fields }).boxed()
}

/// the typed codes a record can carry (OPT travels as `edns`)
pub fn record_codes() -> Vec<u16> {
    typed_codes().into_iter().filter(|c| *c != 41).collect()
}

pub const UNKNOWN_CODES: [u16; 10] = [10, 19, 24, 25, 99, 250, 251, 255, 32768, 65535];

pub fn ardata() -> BoxedStrategy<ARData> {
    ardata_n(aname())
}

/// a type code without a typed variant (and not OPT): the fixed list, or any 16-bit value
pub fn untyped_code() -> BoxedStrategy<u16> {
    prop_oneof![
        3 => select(UNKNOWN_CODES.to_vec()),
        2 => any::<u16>().prop_map(|c| if is_typed(c) { c.wrapping_add(7000) } else { c }),
        2 => select(dict_ints(65535)).prop_map(|c| if is_typed(c as u16) { (c as u16).wrapping_add(7000) } else { c as u16 }),
    ]
    .boxed()
}

pub fn ardata_n(names: BoxedStrategy<AName>) -> BoxedStrategy<ARData> {
    prop_oneof![
        20 => select(record_codes()).prop_flat_map(move |c| typed_n(c, names.clone())),
        2 => (untyped_code(), vec(any::<u8>(), 1..=40).prop_map(Bytes)).prop_map(|(code, data)| ARData::Unknown { code, data }),
        1 => prop_oneof![select(record_codes()), untyped_code()].prop_map(|code| ARData::Empty { code }),
    ]
    .boxed()
}

pub fn arecord_with(rd: BoxedStrategy<ARData>) -> BoxedStrategy<ARecord> {
    arecord_with_n(rd, aname())
}

pub fn arecord_with_n(rd: BoxedStrategy<ARData>, names: BoxedStrategy<AName>) -> BoxedStrategy<ARecord> {
    (names, select(CLASSES.to_vec()), any::<bool>(), u32b(), rd)
        .prop_map(|(name, class, cache_flush, ttl, rdata)| ARecord {
            name,
            class,
            cache_flush,
            ttl,
            rdata,
        })
        .boxed()
}

pub fn arecord() -> BoxedStrategy<ARecord> {
    arecord_with(ardata())
}

pub fn qtypes() -> Vec<u16> {
    let mut v = typed_codes();
    v.extend([10, 251, 252, 253, 254, 255]);
    v
}

pub fn aquestion() -> BoxedStrategy<AQuestion> {
    aquestion_n(aname())
}

pub fn aquestion_n(names: BoxedStrategy<AName>) -> BoxedStrategy<AQuestion> {
    (
        names,
        select(qtypes()),
        select(vec![1u16, 2, 3, 4, 254, 255]),
        any::<bool>(),
    )
        .prop_map(|(name, qtype, qclass, unicast)| AQuestion {
            name,
            qtype,
            qclass,
            unicast,
        })
        .boxed()
}

/// EDNS option codes: the assigned ones (NSID 3, ECS 8, EXPIRE 9, COOKIE 10, KEEPALIVE 11, PADDING 12, EDE 15 ...) and any value
pub fn opt_code() -> BoxedStrategy<u16> {
    prop_oneof![2 => select(vec![1u16, 2, 3, 5, 6, 7, 8, 9, 10, 11, 12, 13, 14, 15, 16, 17, 18, 19, 20, 26946, 65001, 65534]), 3 => u16b()].boxed()
}

/// option payloads: the lengths option-specific validation would care about, and the usual tails
pub fn opt_data() -> BoxedStrategy<Bytes> {
    prop_oneof![3 => tail(), 2 => select(vec![0usize, 1, 2, 7, 8, 9, 15, 16, 17, 24, 32, 39, 40, 41]).prop_flat_map(|n| bytes_n(n))].boxed()
}

pub fn aedns() -> BoxedStrategy<AEdns> {
    (u16b(), u8b(), vec((opt_code(), opt_data()), 0..=3))
        .prop_map(|(udp, version, options)| AEdns { udp, version, options })
        .boxed()
}

pub fn flag_bits() -> BoxedStrategy<u16> {
    vec(any::<bool>(), 7)
        .prop_map(|v| {
            let bits = [0x8000u16, 0x0400, 0x0200, 0x0100, 0x0080, 0x0020, 0x0010];
            v.iter().zip(bits).fold(0, |a, (on, b)| if *on { a | b } else { a })
        })
        .boxed()
}

/// shrink a packet until its plain encoding fits in 65535 bytes (construction, not rejection)
pub fn fit(mut p: APacket) -> APacket {
    loop {
        let len = encode_message(&p, &EncOpts::plain()).len();
        if len <= 65535 {
            return p;
        }
        if p.additionals.pop().is_some() {
            continue;
        }
        if p.authorities.pop().is_some() {
            continue;
        }
        if p.answers.pop().is_some() {
            continue;
        }
        if p.questions.pop().is_some() {
            continue;
        }
        p.edns = None;
    }
}

/// packets within the documented construction domain (named opcode / rcode, rcode > 15 only with EDNS)
pub fn apacket(max_per_section: usize) -> BoxedStrategy<APacket> {
    apacket_n(max_per_section, aname())
}

pub fn apacket_n(max_per_section: usize, names: BoxedStrategy<AName>) -> BoxedStrategy<APacket> {
    let rec = || arecord_with_n(ardata_n(names.clone()), names.clone());
    (
        (any::<u16>(), flag_bits(), select(NAMED_OPCODES.to_vec()), select(NAMED_RCODES.to_vec())),
        proptest::option::weighted(0.3, aedns()),
        vec(aquestion_n(names.clone()), 0..=max_per_section),
        vec(rec(), 0..=max_per_section),
        vec(rec(), 0..=max_per_section.min(2)),
        vec(rec(), 0..=max_per_section.min(3)),
    )
        .prop_map(|((id, flags, opcode, rcode), edns, questions, answers, authorities, additionals)| {
            let mut edns = edns;
            if rcode > 15 && edns.is_none() {
                edns = Some(AEdns {
                    udp: 1232,
                    version: 0,
                    options: vec![],
                });
            }
            fit(APacket {
                id,
                flags,
                opcode,
                rcode,
                edns,
                questions,
                answers,
                authorities,
                additionals,
            })
        })
        .boxed()
}

/// filler records that push later names beyond a chosen offset
pub fn filler(total: usize) -> Vec<ARecord> {
    let mut out = Vec::new();
    let mut left = total;
    let mut k = 0u8;
    while left > 0 {
        let n = left.min(60000);
        out.push(ARecord {
            name: AName(vec![]),
            class: 1,
            cache_flush: false,
            ttl: 0,
            rdata: ARData::Unknown {
                code: 10,
                data: Bytes(vec![k; n.max(1)]),
            },
        });
        k = k.wrapping_add(1);
        left -= n;
    }
    out
}

/// map an index monotonically onto 0..len (shrinks towards 0)
pub fn pick(i: u16, len: usize) -> usize {
    ((i as usize) * len) >> 16
}

/// names arranged as suffix trees over a tiny label pool: owner, question and RDATA names share
/// suffixes all the time, and pairs differ only in a leading or a trailing label
pub fn share_name() -> BoxedStrategy<AName> {
    let pool = vec!["a", "b", "c", "example", "com", "a", "local"];
    prop_oneof![
        1 => Just(AName(vec![])),
        4 => vec(select(pool.clone()), 1..=4).prop_map(|v| AName(v.into_iter().map(|s| Bytes(s.as_bytes().to_vec())).collect())),
        6 => (vec(select(vec!["a", "b", "www", "c", "a", "b", "www", "c", "A", "WWW"]), 0..=2), select(vec![vec!["example", "com"], vec!["com"], vec!["example", "org"], vec!["b", "example", "com"], vec!["local"], vec!["_tcp", "local"], vec!["_srv", "_tcp", "local"], vec!["Local"], vec!["Example", "COM"], vec!["example", "Com"], vec!["_TCP", "local"]]), proptest::option::weighted(0.15, select(vec!["a", "x"])))
            .prop_map(|(lead, tail, extra)| {
                let mut v: Vec<&str> = lead;
                v.extend(tail);
                if let Some(e) = extra { v.push(e); }
                AName(v.into_iter().map(|s| Bytes(s.as_bytes().to_vec())).collect())
            }),
        1 => label().prop_map(|l| AName(vec![l, Bytes(b"example".to_vec()), Bytes(b"com".to_vec())])),
        1 => (vec(select(vec!["a", "b"]), 0..=2), select(dict_labels())).prop_map(|(lead, last)| {
            let mut v: Vec<Bytes> = lead.into_iter().map(|s| Bytes(s.as_bytes().to_vec())).collect();
            v.push(last);
            AName(v)
        }),
        1 => long_name(),
    ]
    .boxed()
}

/// where to put filler so that names appear just below, at or above offset 16383
#[derive(Debug, Clone, PartialEq, Eq, Hash, serde::Serialize, serde::Deserialize)]
pub struct Sharing {
    pub packet: APacket,
    /// opaque filler bytes inserted as leading answer records (0 = none)
    pub filler: u32,
    /// index (scaled) in the answer section at which the filler goes
    pub filler_at: u16,
}

impl Sharing {
    pub fn assemble(&self) -> APacket {
        let mut p = self.packet.clone();
        if self.filler > 0 {
            let at = pick(self.filler_at, p.answers.len() + 1);
            let f = filler(self.filler as usize);
            for (k, r) in f.into_iter().enumerate() {
                p.answers.insert(at + k, r);
            }
        }
        fit(p)
    }
}

/// a packet whose owner names form a staircase: each name is the previous one plus a leading label,
/// shortest first (deep pointer chains in the compressed form) or longest first
pub fn staircase() -> BoxedStrategy<APacket> {
    (2usize..48, any::<bool>(), select(vec!["a", "b", "xy"]), select(vec![vec!["local"], vec!["example", "com"], vec![]]), any::<u16>())
        .prop_map(|(depth, ascending, lab, base, id)| {
            let mut names: Vec<AName> = Vec::new();
            let mut cur: Vec<Bytes> = base.iter().map(|s| Bytes(s.as_bytes().to_vec())).collect();
            for k in 0..depth {
                let mut l = lab.as_bytes().to_vec();
                l.push(b'0' + (k % 10) as u8);
                cur.insert(0, Bytes(l));
                if AName(cur.clone()).wire_len() > 255 {
                    break;
                }
                names.push(AName(cur.clone()));
            }
            if !ascending {
                names.reverse();
            }
            let mut p = APacket { id, flags: 0x8400, ..Default::default() };
            for (k, n) in names.into_iter().enumerate() {
                let rdata = if k % 3 == 2 { ARData::Typed { code: 5, fields: vec![Val::Name(n.clone())] } } else { ARData::Typed { code: 1, fields: vec![Val::U32(k as u32)] } };
                p.answers.push(ARecord { name: n, class: 1, cache_flush: false, ttl: 60, rdata });
            }
            p
        })
        .boxed()
}

pub fn sharing(t: crate::runner::Tier) -> BoxedStrategy<Sharing> {
    let (wsmall, wlarge) = t.pick((12, 1), (4, 1));
    (
        prop_oneof![12 => apacket_n(t.pick(4, 6), share_name()), 1 => staircase()],
        prop_oneof![
            wsmall => Just(0u32),
            wlarge => prop_oneof![16200u32..16500, 15000u32..18000, 30000u32..64000, 1u32..16000],
        ],
        any::<u16>(),
    )
        .prop_map(|(packet, filler, filler_at)| Sharing { packet, filler, filler_at })
        .boxed()
}

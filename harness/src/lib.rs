pub mod meter;
pub mod runner;
pub mod refmodel;
pub mod bridge;
pub mod gen;
pub mod checks;
pub mod driver;

#[global_allocator]
static ALLOC: meter::Meter = meter::Meter;
pub mod fuzzing;

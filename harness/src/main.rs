fn main() {
    std::process::exit(vp::driver::main());
}

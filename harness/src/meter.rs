//! Instruments: counting allocator (per-thread), panic capture, thread CPU clock.
use std::alloc::{GlobalAlloc, Layout, System};
use std::cell::{Cell, RefCell};
use std::panic::{catch_unwind, AssertUnwindSafe};
use std::sync::Once;

pub struct Meter;

thread_local! {
    static CUR: Cell<usize> = const { Cell::new(0) };
    static PEAK: Cell<usize> = const { Cell::new(0) };
    static COUNT: Cell<usize> = const { Cell::new(0) };
    // hard cap for the current thread (0 = none) and the input to dump if it is hit
    static CAP: Cell<usize> = const { Cell::new(0) };
    static INPUT_PTR: Cell<*const u8> = const { Cell::new(std::ptr::null()) };
    static INPUT_LEN: Cell<usize> = const { Cell::new(0) };
}

/// property id + replay path prepared before any metered region (allocation-free emergency path)
static mut EMERGENCY_PATH: [u8; 256] = [0; 256];
static mut EMERGENCY_PROP: [u8; 8] = [0; 8];

pub fn set_emergency(property: &str, path: &str) {
    unsafe {
        let p = path.as_bytes();
        let n = p.len().min(255);
        let dst = std::ptr::addr_of_mut!(EMERGENCY_PATH) as *mut u8;
        std::ptr::copy_nonoverlapping(p.as_ptr(), dst, n);
        *dst.add(n) = 0;
        let q = property.as_bytes();
        let m = q.len().min(7);
        let dst2 = std::ptr::addr_of_mut!(EMERGENCY_PROP) as *mut u8;
        std::ptr::copy_nonoverlapping(q.as_ptr(), dst2, m);
        *dst2.add(m) = 0;
    }
}

fn cstr_len(p: *const u8) -> usize {
    let mut n = 0;
    unsafe {
        while *p.add(n) != 0 {
            n += 1;
        }
    }
    n
}

unsafe fn raw_write(fd: i32, b: &[u8]) {
    let mut off = 0;
    while off < b.len() {
        let r = libc::write(fd, b.as_ptr().add(off) as *const libc::c_void, b.len() - off);
        if r <= 0 {
            break;
        }
        off += r as usize;
    }
}

/// Called from inside the allocator when a thread exceeds its hard cap: dump the input that is
/// being processed as a replay file and end the process with a VIOLATION line. No allocation.
#[cold]
unsafe fn emergency() -> ! {
    let path = std::ptr::addr_of!(EMERGENCY_PATH) as *const u8;
    let prop = std::ptr::addr_of!(EMERGENCY_PROP) as *const u8;
    let plen = cstr_len(prop);
    let fd = libc::open(
        path as *const libc::c_char,
        libc::O_WRONLY | libc::O_CREAT | libc::O_TRUNC,
        0o644,
    );
    if fd >= 0 {
        raw_write(fd, b"{\"property\":\"");
        raw_write(fd, std::slice::from_raw_parts(prop, plen));
        raw_write(fd, b"\",\"section\":\"bytes\",\"signature\":\"heap:hard-cap-exceeded\",\"message\":\"a single call allocated more than the per-thread hard cap\",\"input\":\"");
        let ptr = INPUT_PTR.with(|c| c.get());
        let len = INPUT_LEN.with(|c| c.get());
        if !ptr.is_null() {
            let hexd = b"0123456789abcdef";
            let mut buf = [0u8; 512];
            let mut i = 0;
            while i < len {
                let n = (len - i).min(256);
                for k in 0..n {
                    let b = *ptr.add(i + k);
                    buf[2 * k] = hexd[(b >> 4) as usize];
                    buf[2 * k + 1] = hexd[(b & 15) as usize];
                }
                raw_write(fd, &buf[..2 * n]);
                i += n;
            }
        }
        raw_write(fd, b"\"}\n");
        libc::close(fd);
    }
    raw_write(1, b"VIOLATION property=");
    raw_write(1, std::slice::from_raw_parts(prop, plen));
    raw_write(1, b" replay=");
    raw_write(1, std::slice::from_raw_parts(path, cstr_len(path)));
    raw_write(1, b"\n");
    libc::_exit(1);
}

unsafe impl GlobalAlloc for Meter {
    unsafe fn alloc(&self, l: Layout) -> *mut u8 {
        let p = System.alloc(l);
        if !p.is_null() {
            track_alloc(l.size());
        }
        p
    }
    unsafe fn dealloc(&self, p: *mut u8, l: Layout) {
        System.dealloc(p, l);
        track_free(l.size());
    }
    unsafe fn alloc_zeroed(&self, l: Layout) -> *mut u8 {
        let p = System.alloc_zeroed(l);
        if !p.is_null() {
            track_alloc(l.size());
        }
        p
    }
    unsafe fn realloc(&self, p: *mut u8, l: Layout, new: usize) -> *mut u8 {
        let q = System.realloc(p, l, new);
        if !q.is_null() {
            track_free(l.size());
            track_alloc(new);
        }
        q
    }
}

#[inline]
fn track_alloc(n: usize) {
    let _ = CUR.try_with(|c| {
        let v = c.get().wrapping_add(n);
        c.set(v);
        let _ = PEAK.try_with(|p| {
            if v > p.get() && v < usize::MAX / 2 {
                p.set(v)
            }
        });
        let _ = COUNT.try_with(|k| k.set(k.get() + 1));
        let cap = CAP.try_with(|k| k.get()).unwrap_or(0);
        if cap != 0 && v > cap && v < usize::MAX / 2 {
            unsafe { emergency() }
        }
    });
}
#[inline]
fn track_free(n: usize) {
    let _ = CUR.try_with(|c| c.set(c.get().wrapping_sub(n)));
}

pub struct HeapUse {
    pub peak: usize,
    pub allocs: usize,
}

/// Run `f` and report the peak number of heap bytes this thread held above the level at entry.
/// `input` is what gets dumped if the hard cap is exceeded inside `f`.
pub fn measure<T>(input: &[u8], cap: usize, f: impl FnOnce() -> T) -> (T, HeapUse) {
    let base = CUR.with(|c| c.get());
    PEAK.with(|p| p.set(base));
    COUNT.with(|k| k.set(0));
    INPUT_PTR.with(|c| c.set(input.as_ptr()));
    INPUT_LEN.with(|c| c.set(input.len()));
    CAP.with(|c| c.set(if cap == 0 { 0 } else { base.wrapping_add(cap) }));
    let r = f();
    CAP.with(|c| c.set(0));
    INPUT_PTR.with(|c| c.set(std::ptr::null()));
    let peak = PEAK.with(|p| p.get());
    let allocs = COUNT.with(|k| k.get());
    (
        r,
        HeapUse {
            peak: peak.wrapping_sub(base).min(usize::MAX / 2),
            allocs,
        },
    )
}

// ---------------------------------------------------------------------------------------------
// panic capture

#[derive(Debug, Clone)]
pub struct Panic {
    pub msg: String,
    pub file: String,
    pub line: u32,
}

impl Panic {
    /// `panic:<path below the repository>:<line>` for library locations, else the message head
    pub fn signature(&self) -> String {
        if let Some(rel) = repo_relative(&self.file) {
            format!("panic:{}:{}", rel, self.line)
        } else {
            let head: String = self.msg.lines().next().unwrap_or("").chars().take(80).collect();
            format!("panic:{}:{}:{}", short_file(&self.file), self.line, head)
        }
    }
    pub fn in_library(&self) -> bool {
        repo_relative(&self.file).is_some()
    }
}

fn short_file(f: &str) -> &str {
    f.rsplit('/').next().unwrap_or(f)
}

fn repo_relative(file: &str) -> Option<String> {
    for marker in ["simple-dns/src/", "simple-mdns/src/"] {
        if let Some(i) = file.find(marker) {
            return Some(file[i..].to_string());
        }
    }
    None
}

thread_local! {
    static LAST_PANIC: RefCell<Option<Panic>> = const { RefCell::new(None) };
    static QUIET: Cell<bool> = const { Cell::new(false) };
}

static HOOK: Once = Once::new();

/// every panic of the process, from any thread, with the thread's name (socket tier)
pub static ALL_PANICS: std::sync::Mutex<Vec<(String, Panic)>> = std::sync::Mutex::new(Vec::new());

pub fn install_hook() {
    HOOK.call_once(|| {
        let prev = std::panic::take_hook();
        std::panic::set_hook(Box::new(move |info| {
            let msg = if let Some(s) = info.payload().downcast_ref::<&str>() {
                s.to_string()
            } else if let Some(s) = info.payload().downcast_ref::<String>() {
                s.clone()
            } else {
                "<non-string panic>".to_string()
            };
            let (file, line) = info
                .location()
                .map(|l| (l.file().to_string(), l.line()))
                .unwrap_or(("?".into(), 0));
            let p = Panic { msg, file, line };
            let quiet = QUIET.try_with(|q| q.get()).unwrap_or(false);
            let _ = LAST_PANIC.try_with(|s| *s.borrow_mut() = Some(p.clone()));
            if let Ok(mut all) = ALL_PANICS.lock() {
                if all.len() < 1000 {
                    let name = std::thread::current().name().unwrap_or("?").to_string();
                    all.push((name, p));
                }
            }
            if !quiet && std::env::var_os("VERIF_SHOW_PANICS").is_some() {
                prev(info);
            }
        }));
    });
}

/// run `f`, turning a panic into a value
pub fn catch<T>(f: impl FnOnce() -> T) -> Result<T, Panic> {
    install_hook();
    QUIET.with(|q| q.set(true));
    LAST_PANIC.with(|s| *s.borrow_mut() = None);
    let r = catch_unwind(AssertUnwindSafe(f));
    QUIET.with(|q| q.set(false));
    match r {
        Ok(v) => Ok(v),
        Err(_) => Err(LAST_PANIC.with(|s| s.borrow_mut().take()).unwrap_or(Panic {
            msg: "<unknown panic>".into(),
            file: "?".into(),
            line: 0,
        })),
    }
}

// ---------------------------------------------------------------------------------------------
// CPU time of the calling thread

pub fn thread_cpu_ns() -> u64 {
    let mut ts = libc::timespec {
        tv_sec: 0,
        tv_nsec: 0,
    };
    unsafe {
        libc::clock_gettime(libc::CLOCK_THREAD_CPUTIME_ID, &mut ts);
    }
    ts.tv_sec as u64 * 1_000_000_000 + ts.tv_nsec as u64
}

/// clock id of the calling thread's CPU clock, readable from other threads
pub fn my_cpu_clock() -> libc::clockid_t {
    let mut id: libc::clockid_t = 0;
    unsafe {
        libc::pthread_getcpuclockid(libc::pthread_self(), &mut id);
    }
    id
}

pub fn read_clock_ns(id: libc::clockid_t) -> Option<u64> {
    let mut ts = libc::timespec {
        tv_sec: 0,
        tv_nsec: 0,
    };
    let r = unsafe { libc::clock_gettime(id, &mut ts) };
    if r != 0 {
        return None;
    }
    Some(ts.tv_sec as u64 * 1_000_000_000 + ts.tv_nsec as u64)
}

// ---------------------------------------------------------------------------------------------
// CPU-time watchdog: detects a library call that burns CPU without returning.

use std::sync::atomic::{AtomicU64, Ordering as AOrd};
use std::sync::{Arc, Mutex};

pub struct WatchSlot {
    pub clock: libc::clockid_t,
    pub counter: AtomicU64,
    pub input: Mutex<Vec<u8>>,
}

static SLOTS: Mutex<Vec<Arc<WatchSlot>>> = Mutex::new(Vec::new());

thread_local! {
    static MY_SLOT: RefCell<Option<Arc<WatchSlot>>> = const { RefCell::new(None) };
}

/// announce the input the calling thread is about to process
pub fn watch_begin(input: &[u8]) {
    MY_SLOT.with(|s| {
        let mut s = s.borrow_mut();
        if s.is_none() {
            let slot = Arc::new(WatchSlot {
                clock: my_cpu_clock(),
                counter: AtomicU64::new(0),
                input: Mutex::new(Vec::new()),
            });
            SLOTS.lock().unwrap().push(slot.clone());
            *s = Some(slot);
        }
        let slot = s.as_ref().unwrap();
        {
            let mut i = slot.input.lock().unwrap();
            i.clear();
            i.extend_from_slice(input);
        }
        slot.counter.fetch_add(1, AOrd::SeqCst);
    });
}

/// the calling thread is between cases
pub fn watch_end() {
    MY_SLOT.with(|s| {
        if let Some(slot) = s.borrow().as_ref() {
            slot.counter.fetch_add(1, AOrd::SeqCst);
        }
    });
}

/// Start the supervisor. `on_hang(input)` is called (once per suspected hang) from the
/// supervisor thread with the input that has been burning more than `limit_s` CPU-seconds.
pub fn start_watchdog(limit_s: f64, on_hang: impl Fn(Vec<u8>) + Send + 'static) {
    std::thread::Builder::new()
        .name("watchdog".into())
        .spawn(move || {
            // per slot: (last counter, cpu at last change)
            let mut seen: Vec<(u64, u64, bool)> = Vec::new();
            loop {
                std::thread::sleep(std::time::Duration::from_millis(200));
                let slots: Vec<Arc<WatchSlot>> = SLOTS.lock().unwrap().clone();
                while seen.len() < slots.len() {
                    seen.push((u64::MAX, 0, false));
                }
                for (i, s) in slots.iter().enumerate() {
                    let Some(cpu) = read_clock_ns(s.clock) else { continue };
                    let c = s.counter.load(AOrd::SeqCst);
                    if c != seen[i].0 {
                        seen[i] = (c, cpu, false);
                        continue;
                    }
                    // odd counter = inside a case
                    if c % 2 == 1 && !seen[i].2 && (cpu - seen[i].1) as f64 / 1e9 > limit_s {
                        seen[i].2 = true;
                        let input = s.input.lock().unwrap().clone();
                        on_hang(input);
                    }
                }
            }
        })
        .unwrap();
}

/// run `f` in a fresh thread and wait until it finishes or has burnt `limit_s` CPU-seconds;
/// returns true if it finished
pub fn finishes_within(limit_s: f64, f: impl FnOnce() + Send + 'static) -> bool {
    let (tx, rx) = std::sync::mpsc::channel();
    let done = Arc::new(std::sync::atomic::AtomicBool::new(false));
    let d2 = done.clone();
    std::thread::Builder::new()
        .name("confirm".into())
        .stack_size(64 << 20)
        .spawn(move || {
            let _ = tx.send(my_cpu_clock());
            let _ = catch(f);
            d2.store(true, AOrd::SeqCst);
        })
        .unwrap();
    let Ok(clock) = rx.recv() else { return true };
    loop {
        if done.load(AOrd::SeqCst) {
            return true;
        }
        match read_clock_ns(clock) {
            Some(ns) if ns as f64 / 1e9 > limit_s => return false,
            None => return done.load(AOrd::SeqCst),
            _ => {}
        }
        std::thread::sleep(std::time::Duration::from_millis(50));
    }
}

//! Independent reference model of the DNS wire format, written from the RFCs
//! (1035, 1183, 1706, 1876, 2230, 2782, 3403, 3596, 4025, 4034, 4398, 4701, 6891, 7043, 8659,
//! 8976, 9460). Shares no code with the library under test.
use crate::runner::Bytes;
use serde::{Deserialize, Serialize};

pub mod name;
pub mod schema;
pub mod wire;

pub use name::*;
pub use schema::*;
pub use wire::*;

/// A domain name as a list of raw labels (root = empty list)
#[derive(Clone, Debug, PartialEq, Eq, Hash, PartialOrd, Ord, Serialize, Deserialize, Default)]
pub struct AName(pub Vec<Bytes>);

impl AName {
    pub fn from_strs(l: &[&str]) -> Self {
        AName(l.iter().map(|s| Bytes(s.as_bytes().to_vec())).collect())
    }
    pub fn wire_len(&self) -> usize {
        self.0.iter().map(|l| l.len() + 1).sum::<usize>() + 1
    }
    pub fn is_valid(&self) -> bool {
        self.wire_len() <= 255 && self.0.iter().all(|l| !l.is_empty() && l.len() <= 63)
    }
    pub fn render(&self) -> String {
        if self.0.is_empty() {
            return ".".into();
        }
        self.0
            .iter()
            .map(|l| String::from_utf8_lossy(l).to_string())
            .collect::<Vec<_>>()
            .join(".")
    }
}

#[derive(Clone, Debug, PartialEq, Eq, Hash, Serialize, Deserialize)]
pub enum Gw {
    None,
    V4(Bytes),
    V6(Bytes),
    Name(AName),
}

/// one RDATA field value
#[derive(Clone, Debug, PartialEq, Eq, Hash, Serialize, Deserialize)]
pub enum Val {
    U8(u8),
    U16(u16),
    /// also used for 24-bit fields
    U32(u32),
    /// 48-bit fields
    U64(u64),
    Bytes(Bytes),
    Name(AName),
    Strs(Vec<Bytes>),
    Pairs(Vec<(u16, Bytes)>),
    Windows(Vec<(u8, Bytes)>),
    Gateway(Gw),
}

#[derive(Clone, Debug, PartialEq, Eq, Hash, Serialize, Deserialize)]
pub enum ARData {
    /// one of the typed variants: IANA code + field values in schema order
    Typed { code: u16, fields: Vec<Val> },
    /// NULL (10) and every code without a typed variant: opaque, non-empty
    Unknown { code: u16, data: Bytes },
    /// RDLENGTH 0
    Empty { code: u16 },
}

impl ARData {
    pub fn code(&self) -> u16 {
        match self {
            ARData::Typed { code, .. } | ARData::Unknown { code, .. } | ARData::Empty { code } => *code,
        }
    }
}

#[derive(Clone, Debug, PartialEq, Eq, Hash, Serialize, Deserialize)]
pub struct ARecord {
    pub name: AName,
    /// class code without bit 15 (for a stray OPT record: the raw 16-bit class field)
    pub class: u16,
    pub cache_flush: bool,
    pub ttl: u32,
    pub rdata: ARData,
}

#[derive(Clone, Debug, PartialEq, Eq, Hash, Serialize, Deserialize)]
pub struct AQuestion {
    pub name: AName,
    pub qtype: u16,
    pub qclass: u16,
    pub unicast: bool,
}

#[derive(Clone, Debug, PartialEq, Eq, Hash, Serialize, Deserialize, Default)]
pub struct AEdns {
    pub udp: u16,
    pub version: u8,
    pub options: Vec<(u16, Bytes)>,
}

pub const OPCODE_RESERVED: u8 = 0xFF;
pub const RCODE_RESERVED: u16 = 0xFFFF;

#[derive(Clone, Debug, PartialEq, Eq, Hash, Serialize, Deserialize, Default)]
pub struct APacket {
    pub id: u16,
    /// the seven flag bits QR AA TC RD RA AD CD at their RFC 1035 positions
    pub flags: u16,
    /// 4-bit opcode (or OPCODE_RESERVED when observed through the library's enum)
    pub opcode: u8,
    /// 12-bit response code (or RCODE_RESERVED when observed through the library's enum)
    pub rcode: u16,
    pub edns: Option<AEdns>,
    pub questions: Vec<AQuestion>,
    pub answers: Vec<ARecord>,
    pub authorities: Vec<ARecord>,
    pub additionals: Vec<ARecord>,
}

impl APacket {
    pub fn records(&self) -> impl Iterator<Item = &ARecord> {
        self.answers.iter().chain(self.authorities.iter()).chain(self.additionals.iter())
    }
    pub fn n_entries(&self) -> usize {
        self.questions.len() + self.answers.len() + self.authorities.len() + self.additionals.len()
    }
}

pub const FLAG_BITS: u16 = 0x8000 | 0x0400 | 0x0200 | 0x0100 | 0x0080 | 0x0020 | 0x0010;
pub const NAMED_OPCODES: [u8; 5] = [0, 1, 2, 4, 5];
pub const NAMED_RCODES: [u16; 12] = [0, 1, 2, 3, 4, 5, 6, 7, 8, 9, 10, 16];
pub const CLASSES: [u16; 5] = [1, 2, 3, 4, 254];

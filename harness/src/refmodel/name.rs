//! RFC 1035 §4.1.4 name decoder / encoder (reference)
use super::AName;
use crate::runner::Bytes;
use std::collections::HashMap;

#[derive(Debug, Clone, Copy, PartialEq, Eq, Hash)]
pub enum NameErr {
    /// the in-place bytes or a followed label run past the end of the buffer
    Truncated,
    /// a pointer designates an offset at or beyond the end of the buffer
    PointerOutOfRange,
    /// the same pointer is reached twice
    PointerCycle,
    /// label type bits 01 or 10
    ReservedLabelType,
    /// expanded name longer than 255 bytes on the wire
    NameTooLong,
}

#[derive(Debug, Clone, PartialEq, Eq)]
pub struct NameDec {
    pub labels: Vec<Vec<u8>>,
    /// offset just past the in-place bytes (after the first pointer, if any)
    pub next: usize,
    pub hops: usize,
    /// every pointer target was strictly below the pointer's own offset
    pub all_backward: bool,
    /// bytes of the expanded name on the wire, terminator included
    pub wire_len: usize,
    /// offsets (in the buffer) at which each label of the expanded name starts
    pub label_offsets: Vec<usize>,
    /// offsets of the pointers followed, with their targets
    pub pointers: Vec<(usize, usize)>,
}

impl NameDec {
    pub fn aname(&self) -> AName {
        AName(self.labels.iter().map(|l| Bytes(l.clone())).collect())
    }
}

thread_local! {
    /// framing-only mode: a name ends at its first pointer, which is not followed (where a pointer leads is then not
    /// examined at all; labels and lengths cover the in-place part only)
    static IN_PLACE_ONLY: std::cell::Cell<bool> = const { std::cell::Cell::new(false) };
}

/// run `f` with names read in place only (the 2 octets of a pointer are skipped, its target is not examined)
pub fn with_in_place_names<T>(f: impl FnOnce() -> T) -> T {
    struct Reset;
    impl Drop for Reset {
        fn drop(&mut self) {
            IN_PLACE_ONLY.with(|x| x.set(false));
        }
    }
    IN_PLACE_ONLY.with(|x| x.set(true));
    let _reset = Reset;
    f()
}

pub fn decode_name(buf: &[u8], off: usize) -> Result<NameDec, NameErr> {
    let in_place_only = IN_PLACE_ONLY.with(|x| x.get());
    let mut pos = off;
    let mut next: Option<usize> = None;
    let mut d = NameDec {
        labels: Vec::new(),
        next: 0,
        hops: 0,
        all_backward: true,
        wire_len: 1,
        label_offsets: Vec::new(),
        pointers: Vec::new(),
    };
    let mut seen: Vec<usize> = Vec::new();
    loop {
        if pos >= buf.len() {
            return Err(NameErr::Truncated);
        }
        let b = buf[pos];
        match b >> 6 {
            0 => {
                if b == 0 {
                    if next.is_none() {
                        next = Some(pos + 1);
                    }
                    break;
                }
                let n = b as usize;
                if pos + 1 + n > buf.len() {
                    return Err(NameErr::Truncated);
                }
                d.wire_len += 1 + n;
                if d.wire_len > 255 {
                    return Err(NameErr::NameTooLong);
                }
                d.labels.push(buf[pos + 1..pos + 1 + n].to_vec());
                d.label_offsets.push(pos);
                pos += 1 + n;
            }
            3 => {
                if pos + 2 > buf.len() {
                    return Err(NameErr::Truncated);
                }
                let target = (((b & 0x3f) as usize) << 8) | buf[pos + 1] as usize;
                if next.is_none() {
                    next = Some(pos + 2);
                }
                if in_place_only {
                    d.pointers.push((pos, target));
                    break;
                }
                if target >= buf.len() {
                    return Err(NameErr::PointerOutOfRange);
                }
                if seen.contains(&pos) {
                    return Err(NameErr::PointerCycle);
                }
                seen.push(pos);
                d.hops += 1;
                if target >= pos {
                    d.all_backward = false;
                }
                d.pointers.push((pos, target));
                pos = target;
            }
            _ => return Err(NameErr::ReservedLabelType),
        }
    }
    d.next = next.unwrap();
    Ok(d)
}

pub fn encode_name_plain(n: &AName, out: &mut Vec<u8>) {
    for l in &n.0 {
        out.push(l.len() as u8);
        out.extend_from_slice(l);
    }
    out.push(0);
}

/// How the reference encoder compresses names
#[derive(Debug, Clone)]
pub enum Policy {
    /// never compress
    Plain,
    /// compress every name (any position) against the earliest occurrence of the longest suffix
    All,
    /// per-suffix decisions taken from a byte stream: 0 = do not compress here, else pick the
    /// (b-1 mod k)-th earlier occurrence. Produces foreign, non-canonical layouts.
    Choices(Vec<u8>),
}

pub struct NameTable {
    /// suffix (labels) -> offsets at which that suffix starts, ascending
    pub map: HashMap<Vec<Bytes>, Vec<usize>>,
    pub policy: Policy,
    pub cursor: usize,
    /// offset of the first byte of the message within `out`
    pub origin: usize,
}

impl NameTable {
    pub fn new(policy: Policy) -> Self {
        NameTable {
            map: HashMap::new(),
            policy,
            cursor: 0,
            origin: 0,
        }
    }
    fn choice(&mut self) -> u8 {
        match &self.policy {
            Policy::Plain => 0,
            Policy::All => 1,
            Policy::Choices(c) => {
                if c.is_empty() {
                    return 1;
                }
                let b = c[self.cursor % c.len()];
                self.cursor += 1;
                b
            }
        }
    }
    pub fn encode(&mut self, n: &AName, out: &mut Vec<u8>) {
        for i in 0..n.0.len() {
            let suffix = &n.0[i..];
            let cands: Vec<usize> = self.map.get(suffix).cloned().unwrap_or_default();
            if !cands.is_empty() {
                let c = self.choice();
                if c != 0 {
                    let t = cands[(c as usize - 1) % cands.len()];
                    out.push(0xC0 | (t >> 8) as u8);
                    out.push(t as u8);
                    return;
                }
            }
            let here = out.len() - self.origin;
            if here <= 0x3FFF && !matches!(self.policy, Policy::Plain) {
                self.map.entry(suffix.to_vec()).or_default().push(here);
            }
            out.push(n.0[i].len() as u8);
            out.extend_from_slice(&n.0[i]);
        }
        out.push(0);
    }
}

//! Declarative per-type RDATA schema transcribed from the RFCs, with encoder and decoder.
use super::name::*;
use super::{AName, Gw, Val};
use crate::runner::Bytes;

#[derive(Debug, Clone, Copy, PartialEq, Eq)]
pub enum Cmp {
    /// RFC 1035 names: a compressing writer is expected to compress these
    Must,
    /// RFC 1183/1348 names: RFC 3597 says no, many implementations do; either is accepted
    May,
    /// the type's specification forbids compression
    Never,
}

#[derive(Debug, Clone, Copy, PartialEq, Eq)]
pub enum Kind {
    U8,
    U16,
    U24,
    U32,
    U48,
    Fixed(usize),
    Name(Cmp),
    CharStr,
    /// all remaining bytes of the RDATA
    Rest,
    /// one or more character strings filling the RDATA
    CharStrList,
    /// (u16 code, u16 length, value)* filling the RDATA; `strict` = codes strictly increasing
    Pairs { strict: bool },
    /// (u8 window, u8 length, bitmap)* filling the RDATA, windows strictly increasing
    Windows,
    /// IPSECKEY gateway type octet (value derived from the Gateway field)
    GwType,
    Gateway,
}

#[derive(Debug, Clone, Copy)]
pub struct Field {
    pub name: &'static str,
    pub kind: Kind,
}

const fn f(name: &'static str, kind: Kind) -> Field {
    Field { name, kind }
}

use Kind::*;

pub struct TypeInfo {
    pub code: u16,
    pub mnemonic: &'static str,
    pub fields: &'static [Field],
}

pub static TYPES: &[TypeInfo] = &[
    TypeInfo { code: 1, mnemonic: "A", fields: &[f("address", U32)] },
    TypeInfo { code: 2, mnemonic: "NS", fields: &[f("0", Name(Cmp::Must))] },
    TypeInfo { code: 3, mnemonic: "MD", fields: &[f("0", Name(Cmp::Must))] },
    TypeInfo { code: 4, mnemonic: "MF", fields: &[f("0", Name(Cmp::Must))] },
    TypeInfo { code: 5, mnemonic: "CNAME", fields: &[f("0", Name(Cmp::Must))] },
    TypeInfo {
        code: 6,
        mnemonic: "SOA",
        fields: &[
            f("mname", Name(Cmp::Must)),
            f("rname", Name(Cmp::Must)),
            f("serial", U32),
            f("refresh", U32),
            f("retry", U32),
            f("expire", U32),
            f("minimum", U32),
        ],
    },
    TypeInfo { code: 7, mnemonic: "MB", fields: &[f("0", Name(Cmp::Must))] },
    TypeInfo { code: 8, mnemonic: "MG", fields: &[f("0", Name(Cmp::Must))] },
    TypeInfo { code: 9, mnemonic: "MR", fields: &[f("0", Name(Cmp::Must))] },
    TypeInfo { code: 11, mnemonic: "WKS", fields: &[f("address", U32), f("protocol", U8), f("bit_map", Rest)] },
    TypeInfo { code: 12, mnemonic: "PTR", fields: &[f("0", Name(Cmp::Must))] },
    TypeInfo { code: 13, mnemonic: "HINFO", fields: &[f("cpu", CharStr), f("os", CharStr)] },
    TypeInfo { code: 14, mnemonic: "MINFO", fields: &[f("rmailbox", Name(Cmp::Must)), f("emailbox", Name(Cmp::Must))] },
    TypeInfo { code: 15, mnemonic: "MX", fields: &[f("preference", U16), f("exchange", Name(Cmp::Must))] },
    TypeInfo { code: 16, mnemonic: "TXT", fields: &[f("strings", CharStrList)] },
    TypeInfo { code: 17, mnemonic: "RP", fields: &[f("mbox", Name(Cmp::May)), f("txt", Name(Cmp::May))] },
    TypeInfo { code: 18, mnemonic: "AFSDB", fields: &[f("subtype", U16), f("hostname", Name(Cmp::May))] },
    TypeInfo { code: 20, mnemonic: "ISDN", fields: &[f("address", CharStr), f("sa", CharStr)] },
    TypeInfo { code: 21, mnemonic: "RT", fields: &[f("preference", U16), f("intermediate_host", Name(Cmp::May))] },
    TypeInfo {
        code: 22,
        mnemonic: "NSAP",
        fields: &[
            f("afi", U8),
            f("idi", U16),
            f("dfi", U8),
            f("aa", U24),
            f("rsvd", U16),
            f("rd", U16),
            f("area", U16),
            f("id", U48),
            f("sel", U8),
        ],
    },
    TypeInfo { code: 23, mnemonic: "NSAP-PTR", fields: &[f("0", Name(Cmp::May))] },
    TypeInfo { code: 28, mnemonic: "AAAA", fields: &[f("address", Fixed(16))] },
    TypeInfo {
        code: 29,
        mnemonic: "LOC",
        fields: &[
            f("version", U8),
            f("size", U8),
            f("horizontal_precision", U8),
            f("vertical_precision", U8),
            f("latitude", U32),
            f("longitude", U32),
            f("altitude", U32),
        ],
    },
    TypeInfo {
        code: 33,
        mnemonic: "SRV",
        fields: &[f("priority", U16), f("weight", U16), f("port", U16), f("target", Name(Cmp::Never))],
    },
    TypeInfo {
        code: 35,
        mnemonic: "NAPTR",
        fields: &[
            f("order", U16),
            f("preference", U16),
            f("flags", CharStr),
            f("services", CharStr),
            f("regexp", CharStr),
            f("replacement", Name(Cmp::Never)),
        ],
    },
    TypeInfo { code: 36, mnemonic: "KX", fields: &[f("preference", U16), f("exchanger", Name(Cmp::Never))] },
    TypeInfo {
        code: 37,
        mnemonic: "CERT",
        fields: &[f("type_code", U16), f("key_tag", U16), f("algorithm", U8), f("certificate", Rest)],
    },
    TypeInfo { code: 41, mnemonic: "OPT", fields: &[f("opt_codes", Pairs { strict: false })] },
    TypeInfo {
        code: 43,
        mnemonic: "DS",
        fields: &[f("key_tag", U16), f("algorithm", U8), f("digest_type", U8), f("digest", Rest)],
    },
    TypeInfo {
        code: 45,
        mnemonic: "IPSECKEY",
        fields: &[
            f("precedence", U8),
            f("gateway_type", GwType),
            f("algorithm", U8),
            f("gateway", Gateway),
            f("public_key", Rest),
        ],
    },
    TypeInfo {
        code: 46,
        mnemonic: "RRSIG",
        fields: &[
            f("type_covered", U16),
            f("algorithm", U8),
            f("labels", U8),
            f("original_ttl", U32),
            f("signature_expiration", U32),
            f("signature_inception", U32),
            f("key_tag", U16),
            f("signer_name", Name(Cmp::Never)),
            f("signature", Rest),
        ],
    },
    TypeInfo { code: 47, mnemonic: "NSEC", fields: &[f("next_name", Name(Cmp::Never)), f("type_bit_maps", Windows)] },
    TypeInfo {
        code: 48,
        mnemonic: "DNSKEY",
        fields: &[f("flags", U16), f("protocol", U8), f("algorithm", U8), f("public_key", Rest)],
    },
    TypeInfo { code: 49, mnemonic: "DHCID", fields: &[f("identifier", U16), f("digest_type", U8), f("digest", Rest)] },
    TypeInfo {
        code: 63,
        mnemonic: "ZONEMD",
        fields: &[f("serial", U32), f("scheme", U8), f("algorithm", U8), f("digest", Rest)],
    },
    TypeInfo {
        code: 64,
        mnemonic: "SVCB",
        fields: &[f("priority", U16), f("target", Name(Cmp::Never)), f("params", Pairs { strict: true })],
    },
    TypeInfo {
        code: 65,
        mnemonic: "HTTPS",
        fields: &[f("priority", U16), f("target", Name(Cmp::Never)), f("params", Pairs { strict: true })],
    },
    TypeInfo { code: 108, mnemonic: "EUI48", fields: &[f("address", Fixed(6))] },
    TypeInfo { code: 109, mnemonic: "EUI64", fields: &[f("address", Fixed(8))] },
    TypeInfo { code: 257, mnemonic: "CAA", fields: &[f("flag", U8), f("tag", CharStr), f("value", Rest)] },
];

pub fn type_info(code: u16) -> Option<&'static TypeInfo> {
    TYPES.iter().find(|t| t.code == code)
}

/// the 40 typed codes (OPT included)
pub fn typed_codes() -> Vec<u16> {
    TYPES.iter().map(|t| t.code).collect()
}

pub fn is_typed(code: u16) -> bool {
    type_info(code).is_some()
}

/// number of values a schema carries (GwType is derived, not a value)
pub fn value_fields(info: &TypeInfo) -> impl Iterator<Item = &'static Field> {
    info.fields.iter().filter(|f| f.kind != GwType)
}

#[derive(Debug, Clone, PartialEq, Eq)]
pub enum DecErr {
    /// a read ran past the end of the RDATA slice
    Overrun,
    Name(NameErr),
    /// a structural rule of the type is broken (LOC version, key / window order, gateway type)
    Rule(&'static str),
    /// values do not match the schema (harness misuse)
    Shape,
}

/// position of an embedded name found while decoding (for the pointer walker)
#[derive(Debug, Clone)]
pub struct NameOcc {
    pub offset: usize,
    pub cmp: Cmp,
    pub dec: NameDec,
}

/// Decode `msg[start..end]` as RDATA of `code`. Names may point anywhere below `end`.
/// Returns the values, the offset at which the typed content stopped, and the embedded names.
pub fn schema_decode(code: u16, msg: &[u8], start: usize, end: usize) -> Result<(Vec<Val>, usize, Vec<NameOcc>), DecErr> {
    let info = type_info(code).ok_or(DecErr::Shape)?;
    let buf = &msg[..end];
    let mut pos = start;
    let mut vals = Vec::new();
    let mut names = Vec::new();
    let mut gw_type = 0u8;
    let take = |pos: &mut usize, n: usize| -> Result<&[u8], DecErr> {
        if *pos + n > end {
            return Err(DecErr::Overrun);
        }
        let s = &buf[*pos..*pos + n];
        *pos += n;
        Ok(s)
    };
    for fld in info.fields {
        match fld.kind {
            U8 => vals.push(Val::U8(take(&mut pos, 1)?[0])),
            U16 => {
                let s = take(&mut pos, 2)?;
                vals.push(Val::U16(u16::from_be_bytes([s[0], s[1]])))
            }
            U24 => {
                let s = take(&mut pos, 3)?;
                vals.push(Val::U32(u32::from_be_bytes([0, s[0], s[1], s[2]])))
            }
            U32 => {
                let s = take(&mut pos, 4)?;
                vals.push(Val::U32(u32::from_be_bytes([s[0], s[1], s[2], s[3]])))
            }
            U48 => {
                let s = take(&mut pos, 6)?;
                vals.push(Val::U64(u64::from_be_bytes([0, 0, s[0], s[1], s[2], s[3], s[4], s[5]])))
            }
            Fixed(n) => vals.push(Val::Bytes(Bytes(take(&mut pos, n)?.to_vec()))),
            Name(cmp) => {
                if pos >= end {
                    return Err(DecErr::Overrun);
                }
                let d = decode_name(buf, pos).map_err(|e| match e {
                    NameErr::Truncated => DecErr::Overrun,
                    e => DecErr::Name(e),
                })?;
                vals.push(Val::Name(d.aname()));
                let off = pos;
                pos = d.next;
                names.push(NameOcc { offset: off, cmp, dec: d });
            }
            CharStr => {
                let n = take(&mut pos, 1)?[0] as usize;
                vals.push(Val::Bytes(Bytes(take(&mut pos, n)?.to_vec())));
            }
            Rest => {
                vals.push(Val::Bytes(Bytes(buf[pos..end].to_vec())));
                pos = end;
            }
            CharStrList => {
                let mut v = Vec::new();
                while pos < end {
                    let n = take(&mut pos, 1)?[0] as usize;
                    v.push(Bytes(take(&mut pos, n)?.to_vec()));
                }
                vals.push(Val::Strs(v));
            }
            Pairs { strict } => {
                let mut v: Vec<(u16, Bytes)> = Vec::new();
                while pos < end {
                    let h = take(&mut pos, 4)?;
                    let k = u16::from_be_bytes([h[0], h[1]]);
                    let n = u16::from_be_bytes([h[2], h[3]]) as usize;
                    if strict {
                        if let Some((pk, _)) = v.last() {
                            if k <= *pk {
                                return Err(DecErr::Rule("keys not strictly increasing"));
                            }
                        }
                    }
                    v.push((k, Bytes(take(&mut pos, n)?.to_vec())));
                }
                vals.push(Val::Pairs(v));
            }
            Windows => {
                let mut v: Vec<(u8, Bytes)> = Vec::new();
                while pos < end {
                    let h = take(&mut pos, 2)?;
                    let (w, n) = (h[0], h[1] as usize);
                    if let Some((pw, _)) = v.last() {
                        if w <= *pw {
                            return Err(DecErr::Rule("windows not strictly increasing"));
                        }
                    }
                    v.push((w, Bytes(take(&mut pos, n)?.to_vec())));
                }
                vals.push(Val::Windows(v));
            }
            GwType => gw_type = take(&mut pos, 1)?[0],
            Gateway => {
                let g = match gw_type {
                    0 => Gw::None,
                    1 => Gw::V4(Bytes(take(&mut pos, 4)?.to_vec())),
                    2 => Gw::V6(Bytes(take(&mut pos, 16)?.to_vec())),
                    3 => {
                        if pos >= end {
                            return Err(DecErr::Overrun);
                        }
                        let d = decode_name(buf, pos).map_err(|e| match e {
                            NameErr::Truncated => DecErr::Overrun,
                            e => DecErr::Name(e),
                        })?;
                        let off = pos;
                        pos = d.next;
                        let n = d.aname();
                        names.push(NameOcc { offset: off, cmp: Cmp::Never, dec: d });
                        Gw::Name(n)
                    }
                    _ => return Err(DecErr::Rule("unknown gateway type")),
                };
                vals.push(Val::Gateway(g));
            }
        }
    }
    if code == 29 {
        if let Some(Val::U8(v)) = vals.first() {
            if *v != 0 {
                return Err(DecErr::Rule("LOC version not 0"));
            }
        }
    }
    Ok((vals, pos, names))
}

/// Encode values as RDATA of `code`, appending to `out`. Names are written through `table`
/// when `compress(cmp)` says so, else in full.
pub fn schema_encode(
    code: u16,
    vals: &[Val],
    out: &mut Vec<u8>,
    table: &mut NameTable,
    compress: &dyn Fn(Cmp) -> bool,
) -> Result<(), DecErr> {
    let info = type_info(code).ok_or(DecErr::Shape)?;
    let mut it = vals.iter();
    // gateway type is derived from the gateway value
    let gw = vals.iter().find_map(|v| if let Val::Gateway(g) = v { Some(g) } else { None });
    let mut put_name = |n: &AName, cmp: Cmp, out: &mut Vec<u8>, table: &mut NameTable| {
        if compress(cmp) {
            table.encode(n, out)
        } else {
            encode_name_plain(n, out)
        }
    };
    for fld in info.fields {
        if fld.kind == GwType {
            out.push(match gw {
                Some(Gw::None) => 0,
                Some(Gw::V4(_)) => 1,
                Some(Gw::V6(_)) => 2,
                Some(Gw::Name(_)) => 3,
                None => return Err(DecErr::Shape),
            });
            continue;
        }
        let v = it.next().ok_or(DecErr::Shape)?;
        match (fld.kind, v) {
            (U8, Val::U8(x)) => out.push(*x),
            (U16, Val::U16(x)) => out.extend_from_slice(&x.to_be_bytes()),
            (U24, Val::U32(x)) => out.extend_from_slice(&x.to_be_bytes()[1..]),
            (U32, Val::U32(x)) => out.extend_from_slice(&x.to_be_bytes()),
            (U48, Val::U64(x)) => out.extend_from_slice(&x.to_be_bytes()[2..]),
            (Fixed(n), Val::Bytes(b)) if b.len() == n => out.extend_from_slice(b),
            (Name(cmp), Val::Name(n)) => put_name(n, cmp, out, table),
            (CharStr, Val::Bytes(b)) if b.len() <= 255 => {
                out.push(b.len() as u8);
                out.extend_from_slice(b)
            }
            (Rest, Val::Bytes(b)) => out.extend_from_slice(b),
            (CharStrList, Val::Strs(v)) => {
                for b in v {
                    if b.len() > 255 {
                        return Err(DecErr::Shape);
                    }
                    out.push(b.len() as u8);
                    out.extend_from_slice(b);
                }
            }
            (Pairs { .. }, Val::Pairs(v)) => {
                for (k, b) in v {
                    if b.len() > 65535 {
                        return Err(DecErr::Shape);
                    }
                    out.extend_from_slice(&k.to_be_bytes());
                    out.extend_from_slice(&(b.len() as u16).to_be_bytes());
                    out.extend_from_slice(b);
                }
            }
            (Windows, Val::Windows(v)) => {
                for (w, b) in v {
                    if b.len() > 255 {
                        return Err(DecErr::Shape);
                    }
                    out.push(*w);
                    out.push(b.len() as u8);
                    out.extend_from_slice(b);
                }
            }
            (Gateway, Val::Gateway(g)) => match g {
                Gw::None => {}
                Gw::V4(b) if b.len() == 4 => out.extend_from_slice(b),
                Gw::V6(b) if b.len() == 16 => out.extend_from_slice(b),
                Gw::Name(n) => put_name(n, Cmp::Never, out, table),
                _ => return Err(DecErr::Shape),
            },
            _ => return Err(DecErr::Shape),
        }
    }
    if it.next().is_some() {
        return Err(DecErr::Shape);
    }
    Ok(())
}

/// names embedded in a value list, in schema order, with their compression class
pub fn embedded_names<'a>(code: u16, vals: &'a [Val]) -> Vec<(&'a AName, Cmp)> {
    let Some(info) = type_info(code) else { return vec![] };
    let mut out = Vec::new();
    for (fld, v) in value_fields(info).zip(vals.iter()) {
        match (fld.kind, v) {
            (Name(c), Val::Name(n)) => out.push((n, c)),
            (Gateway, Val::Gateway(Gw::Name(n))) => out.push((n, Cmp::Never)),
            _ => {}
        }
    }
    out
}

//! Message level: RFC 1035 envelope walker, reference encoder and decoder.
use super::name::*;
use super::schema::*;
use super::*;
use std::collections::HashMap;

#[derive(Debug, Clone, PartialEq, Eq)]
pub enum WalkErr {
    /// fewer than 12 bytes
    ShortHeader,
    /// counts or lengths run past the end of the message
    Overrun,
    Name(NameErr),
}

#[derive(Debug, Clone)]
pub struct WQuestion {
    pub off: usize,
    pub name: NameDec,
    pub qtype: u16,
    pub qclass_raw: u16,
    pub end: usize,
}

#[derive(Debug, Clone)]
pub struct WRecord {
    /// 0 answer, 1 authority, 2 additional
    pub section: usize,
    pub off: usize,
    pub name: NameDec,
    pub rtype: u16,
    pub class_raw: u16,
    pub ttl: u32,
    pub rdlen: usize,
    pub rdata_off: usize,
    pub end: usize,
}

#[derive(Debug, Clone)]
pub struct Walk {
    pub id: u16,
    pub flags_word: u16,
    pub counts: [u16; 4],
    pub questions: Vec<WQuestion>,
    pub records: Vec<WRecord>,
    pub end: usize,
}

impl Walk {
    pub fn section(&self, s: usize) -> impl Iterator<Item = &WRecord> {
        self.records.iter().filter(move |r| r.section == s)
    }
}

fn be16(b: &[u8], o: usize) -> u16 {
    u16::from_be_bytes([b[o], b[o + 1]])
}

/// Walk the envelope: header, QDCOUNT questions (name + 4), then records
/// (name + TYPE CLASS TTL RDLENGTH + RDLENGTH bytes). Knows nothing about RDATA contents.
pub fn walk(buf: &[u8]) -> Result<Walk, WalkErr> {
    if buf.len() < 12 {
        return Err(WalkErr::ShortHeader);
    }
    let mut w = Walk {
        id: be16(buf, 0),
        flags_word: be16(buf, 2),
        counts: [be16(buf, 4), be16(buf, 6), be16(buf, 8), be16(buf, 10)],
        questions: Vec::new(),
        records: Vec::new(),
        end: 12,
    };
    let mut pos = 12;
    let map_name = |e: NameErr| match e {
        NameErr::Truncated => WalkErr::Overrun,
        e => WalkErr::Name(e),
    };
    for _ in 0..w.counts[0] {
        if pos >= buf.len() {
            return Err(WalkErr::Overrun);
        }
        let name = decode_name(buf, pos).map_err(map_name)?;
        let p = name.next;
        if p + 4 > buf.len() {
            return Err(WalkErr::Overrun);
        }
        w.questions.push(WQuestion {
            off: pos,
            qtype: be16(buf, p),
            qclass_raw: be16(buf, p + 2),
            end: p + 4,
            name,
        });
        pos = p + 4;
    }
    for section in 0..3 {
        for _ in 0..w.counts[section + 1] {
            if pos >= buf.len() {
                return Err(WalkErr::Overrun);
            }
            let name = decode_name(buf, pos).map_err(map_name)?;
            let p = name.next;
            if p + 10 > buf.len() {
                return Err(WalkErr::Overrun);
            }
            let rdlen = be16(buf, p + 8) as usize;
            if p + 10 + rdlen > buf.len() {
                return Err(WalkErr::Overrun);
            }
            w.records.push(WRecord {
                section,
                off: pos,
                name,
                rtype: be16(buf, p),
                class_raw: be16(buf, p + 2),
                ttl: u32::from_be_bytes([buf[p + 4], buf[p + 5], buf[p + 6], buf[p + 7]]),
                rdlen,
                rdata_off: p + 10,
                end: p + 10 + rdlen,
            });
            pos = p + 10 + rdlen;
        }
    }
    w.end = pos;
    Ok(w)
}

// ---------------------------------------------------------------------------------------------
// reference encoder

/// per-record framing tweak used to build RDLENGTH-vs-content mismatches (C05) on purpose
#[derive(Debug, Clone, Default, PartialEq, Eq, Hash, serde::Serialize, serde::Deserialize)]
pub struct Tweak {
    /// opaque bytes appended to the typed content and counted in RDLENGTH
    pub surplus: Bytes,
    /// RDLENGTH is reduced by this many bytes (content unchanged, so it overruns its frame)
    pub shrink: u16,
}

#[derive(Debug, Clone)]
pub struct EncOpts {
    pub policy: Policy,
    /// which RDATA names go through the compression table (owner/question names always do)
    pub rdata_names: RdataNames,
    /// index in the additional section at which the EDNS OPT record is emitted (clamped)
    pub edns_pos: usize,
    /// extra bits OR-ed into the OPT TTL (DO bit / Z bits)
    pub edns_flags: u16,
    /// (section 0..3, index) -> tweak
    pub tweaks: HashMap<(usize, usize), Tweak>,
    /// header word bits outside the model (Z bit) OR-ed in
    pub extra_header_bits: u16,
}

#[derive(Debug, Clone, Copy, PartialEq, Eq)]
pub enum RdataNames {
    /// only RFC 1035 names (what a conforming compressor does)
    MustOnly,
    /// every embedded name (legal for a parser to meet)
    All,
}

impl Default for EncOpts {
    fn default() -> Self {
        EncOpts {
            policy: Policy::Plain,
            rdata_names: RdataNames::MustOnly,
            edns_pos: 0,
            edns_flags: 0,
            tweaks: HashMap::new(),
            extra_header_bits: 0,
        }
    }
}

impl EncOpts {
    pub fn plain() -> Self {
        Self::default()
    }
    pub fn compressed() -> Self {
        EncOpts {
            policy: Policy::All,
            ..Self::default()
        }
    }
    pub fn foreign(choices: Vec<u8>) -> Self {
        EncOpts {
            policy: Policy::Choices(choices),
            rdata_names: RdataNames::All,
            ..Self::default()
        }
    }
}

pub fn header_word(p: &APacket) -> u16 {
    (p.flags & FLAG_BITS) | (((p.opcode & 15) as u16) << 11) | (p.rcode & 15)
}

/// byte ranges of each record's RDATA in an encoded message, in section order
#[derive(Debug, Clone, Default)]
pub struct EncMap {
    /// (section, index, rdata_off, rdata_end); the EDNS record is reported with section 3
    pub rdata: Vec<(usize, usize, usize, usize)>,
}

pub fn encode_message(p: &APacket, o: &EncOpts) -> Vec<u8> {
    encode_message_map(p, o).0
}

pub fn encode_message_map(p: &APacket, o: &EncOpts) -> (Vec<u8>, EncMap) {
    let mut out = Vec::new();
    let mut map = EncMap::default();
    let mut table = NameTable::new(o.policy.clone());
    out.extend_from_slice(&p.id.to_be_bytes());
    out.extend_from_slice(&(header_word(p) | o.extra_header_bits).to_be_bytes());
    out.extend_from_slice(&(p.questions.len() as u16).to_be_bytes());
    out.extend_from_slice(&(p.answers.len() as u16).to_be_bytes());
    out.extend_from_slice(&(p.authorities.len() as u16).to_be_bytes());
    out.extend_from_slice(&((p.additionals.len() + p.edns.is_some() as usize) as u16).to_be_bytes());
    for q in &p.questions {
        table.encode(&q.name, &mut out);
        out.extend_from_slice(&q.qtype.to_be_bytes());
        out.extend_from_slice(&(q.qclass | if q.unicast { 0x8000 } else { 0 }).to_be_bytes());
    }
    let all = o.rdata_names == RdataNames::All;
    let compress = move |c: Cmp| all || c == Cmp::Must;
    let put = |sec: usize, idx: usize, r: &ARecord, out: &mut Vec<u8>, table: &mut NameTable, map: &mut EncMap| {
        table.encode(&r.name, out);
        out.extend_from_slice(&r.rdata.code().to_be_bytes());
        let class = if r.rdata.code() == 41 {
            r.class
        } else {
            r.class | if r.cache_flush { 0x8000 } else { 0 }
        };
        out.extend_from_slice(&class.to_be_bytes());
        out.extend_from_slice(&r.ttl.to_be_bytes());
        let lenpos = out.len();
        out.extend_from_slice(&[0, 0]);
        match &r.rdata {
            ARData::Typed { code, fields } => {
                schema_encode(*code, fields, out, table, &compress).expect("abstract record matches its schema")
            }
            ARData::Unknown { data, .. } => out.extend_from_slice(data),
            ARData::Empty { .. } => {}
        }
        let mut rdlen = out.len() - lenpos - 2;
        if let Some(t) = o.tweaks.get(&(sec, idx)) {
            out.extend_from_slice(&t.surplus);
            rdlen += t.surplus.len();
            rdlen = rdlen.saturating_sub(t.shrink as usize);
        }
        out[lenpos..lenpos + 2].copy_from_slice(&(rdlen as u16).to_be_bytes());
        map.rdata.push((sec, idx, lenpos + 2, lenpos + 2 + rdlen));
    };
    for (i, r) in p.answers.iter().enumerate() {
        put(0, i, r, &mut out, &mut table, &mut map);
    }
    for (i, r) in p.authorities.iter().enumerate() {
        put(1, i, r, &mut out, &mut table, &mut map);
    }
    let epos = o.edns_pos.min(p.additionals.len());
    for i in 0..=p.additionals.len() {
        if i == epos {
            if let Some(e) = &p.edns {
                out.push(0);
                out.extend_from_slice(&41u16.to_be_bytes());
                out.extend_from_slice(&e.udp.to_be_bytes());
                out.push(((p.rcode >> 4) & 0xff) as u8);
                out.push(e.version);
                out.extend_from_slice(&o.edns_flags.to_be_bytes());
                let lenpos = out.len();
                out.extend_from_slice(&[0, 0]);
                for (k, v) in &e.options {
                    out.extend_from_slice(&k.to_be_bytes());
                    out.extend_from_slice(&(v.len() as u16).to_be_bytes());
                    out.extend_from_slice(v);
                }
                let rdlen = out.len() - lenpos - 2;
                out[lenpos..lenpos + 2].copy_from_slice(&(rdlen as u16).to_be_bytes());
                map.rdata.push((3, usize::MAX, lenpos + 2, lenpos + 2 + rdlen));
            }
        }
        if i < p.additionals.len() {
            put(2, i, &p.additionals[i], &mut out, &mut table, &mut map);
        }
    }
    (out, map)
}

// ---------------------------------------------------------------------------------------------
// reference decoder

#[derive(Debug, Clone, PartialEq, Eq)]
pub enum MsgErr {
    Walk(WalkErr),
    /// typed content of record #n (0-based over all records) cannot be decoded inside its frame
    Rdata(usize, DecErr),
}

/// how a record's typed content relates to its RDLENGTH frame
#[derive(Debug, Clone, Copy, PartialEq, Eq)]
pub enum Fill {
    Exact,
    /// content ended before the frame did (surplus bytes)
    Surplus(usize),
}

pub fn decode_record(buf: &[u8], r: &WRecord) -> Result<(ARecord, Fill), DecErr> {
    let code = r.rtype;
    let (rdata, fill) = if r.rdlen == 0 && code == 41 {
        // an OPT record without options is still an OPT record (RFC 6891 §6.1.2)
        (ARData::Typed { code, fields: vec![Val::Pairs(vec![])] }, Fill::Exact)
    } else if r.rdlen == 0 {
        (ARData::Empty { code }, Fill::Exact)
    } else if is_typed(code) {
        let (fields, stop, _) = schema_decode(code, buf, r.rdata_off, r.end)?;
        let fill = if stop == r.end { Fill::Exact } else { Fill::Surplus(r.end - stop) };
        (ARData::Typed { code, fields }, fill)
    } else {
        (
            ARData::Unknown {
                code,
                data: Bytes(buf[r.rdata_off..r.end].to_vec()),
            },
            Fill::Exact,
        )
    };
    let (class, cache_flush) = if code == 41 {
        (r.class_raw, false)
    } else {
        (r.class_raw & 0x7fff, r.class_raw & 0x8000 != 0)
    };
    Ok((
        ARecord {
            name: r.name.aname(),
            class,
            cache_flush,
            ttl: r.ttl,
            rdata,
        },
        fill,
    ))
}

/// Decode a whole message into the abstract packet: the first OPT record of the additional
/// section becomes `edns` and contributes the upper 8 bits of the response code.
pub fn decode_message(buf: &[u8]) -> Result<(APacket, Vec<Fill>), MsgErr> {
    decode_message_lifting(buf, 0)
}

/// number of OPT-typed entries in the additional section of a walkable message
pub fn opt_entries(buf: &[u8]) -> usize {
    walk(buf).map(|w| w.records.iter().filter(|r| r.section == 2 && r.rtype == 41).count()).unwrap_or(0)
}

/// as decode_message, with the `lift`-th (0-based) OPT-typed additional entry taken as the EDNS record (RFC 6891
/// allows one; which of several a reader picks is its own business)
pub fn decode_message_lifting(buf: &[u8], lift: usize) -> Result<(APacket, Vec<Fill>), MsgErr> {
    let mut opts_seen = 0usize;
    let w = walk(buf).map_err(MsgErr::Walk)?;
    let mut p = APacket {
        id: w.id,
        flags: w.flags_word & FLAG_BITS,
        opcode: ((w.flags_word >> 11) & 15) as u8,
        rcode: w.flags_word & 15,
        ..Default::default()
    };
    for q in &w.questions {
        p.questions.push(AQuestion {
            name: q.name.aname(),
            qtype: q.qtype,
            qclass: q.qclass_raw & 0x7fff,
            unicast: q.qclass_raw & 0x8000 != 0,
        });
    }
    let mut fills = Vec::new();
    for (i, r) in w.records.iter().enumerate() {
        let (rec, fill) = decode_record(buf, r).map_err(|e| MsgErr::Rdata(i, e))?;
        fills.push(fill);
        let this_opt = r.section == 2 && r.rtype == 41;
        if this_opt {
            opts_seen += 1;
        }
        if this_opt && p.edns.is_none() && opts_seen == lift + 1 {
            let options = match &rec.rdata {
                ARData::Typed { fields, .. } => match &fields[0] {
                    Val::Pairs(v) => v.clone(),
                    _ => unreachable!(),
                },
                _ => Vec::new(),
            };
            p.edns = Some(AEdns {
                udp: r.class_raw,
                version: (r.ttl >> 16) as u8,
                options,
            });
            p.rcode |= ((r.ttl >> 24) as u16) << 4;
            continue;
        }
        match r.section {
            0 => p.answers.push(rec),
            1 => p.authorities.push(rec),
            _ => p.additionals.push(rec),
        }
    }
    Ok((p, fills))
}

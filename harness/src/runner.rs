//! Engine: sharded proptest sections, enumeration sections, replay, known findings, evidence.
use crate::meter;
use proptest::strategy::{BoxedStrategy, Strategy};
use proptest::test_runner::{Config, RngSeed, TestCaseError, TestError, TestRunner};
use serde::de::DeserializeOwned;
use serde::Serialize;
use serde_json::{json, Value};
use std::collections::{BTreeMap, HashSet};
use std::fmt::Debug;
use std::hash::{Hash, Hasher};
use std::path::PathBuf;
use std::sync::atomic::{AtomicBool, AtomicU64, Ordering};
use std::sync::Mutex;
use std::time::Instant;

#[derive(Clone, Copy, PartialEq, Eq, Debug)]
pub enum Tier {
    Quick,
    Thorough,
}

impl Tier {
    pub fn pick<T>(self, quick: T, thorough: T) -> T {
        match self {
            Tier::Quick => quick,
            Tier::Thorough => thorough,
        }
    }
    pub fn name(self) -> &'static str {
        self.pick("quick", "thorough")
    }
}

/// A failed oracle. `sig` identifies the *kind* of failure (used to key known findings).
#[derive(Debug, Clone)]
pub struct Fail {
    pub sig: String,
    pub msg: String,
}

impl Fail {
    pub fn new(sig: impl Into<String>, msg: impl Into<String>) -> Self {
        Fail {
            sig: sig.into(),
            msg: msg.into(),
        }
    }
}

impl From<meter::Panic> for Fail {
    fn from(p: meter::Panic) -> Self {
        Fail::new(p.signature(), format!("panic at {}:{}: {}", p.file, p.line, p.msg))
    }
}

#[macro_export]
macro_rules! ensure {
    ($cond:expr, $sig:expr, $($arg:tt)*) => {
        if !($cond) {
            return Err($crate::runner::Fail::new($sig, format!($($arg)*)));
        }
    };
}

/// What one evaluated case reports about itself.
#[derive(Default)]
pub struct Case {
    pub nontrivial: bool,
    pub classes: Vec<String>,
    pub excluded: Vec<&'static str>,
    pub maxima: Vec<(&'static str, f64)>,
    /// extra evaluations performed inside this case (e.g. writer configurations)
    pub extra_evals: u64,
}

impl Case {
    pub fn class(&mut self, c: impl Into<String>) {
        self.classes.push(c.into());
    }
    pub fn max(&mut self, k: &'static str, v: f64) {
        self.maxima.push((k, v));
    }
}

#[derive(Default)]
pub struct Stats {
    pub evaluations: u64,
    pub nontrivial: HashSet<u64>,
    pub classes: BTreeMap<String, u64>,
    pub excluded: BTreeMap<String, u64>,
    pub known_hits: BTreeMap<String, u64>,
    pub maxima: BTreeMap<String, f64>,
    pub samples: Vec<Value>,
    pub nontrivial_samples: Vec<Value>,
}

impl Stats {
    fn merge(&mut self, o: Stats) {
        self.evaluations += o.evaluations;
        self.nontrivial.extend(o.nontrivial);
        for (k, v) in o.classes {
            *self.classes.entry(k).or_default() += v;
        }
        for (k, v) in o.excluded {
            *self.excluded.entry(k).or_default() += v;
        }
        for (k, v) in o.known_hits {
            *self.known_hits.entry(k).or_default() += v;
        }
        for (k, v) in o.maxima {
            let e = self.maxima.entry(k).or_insert(v);
            if v > *e {
                *e = v
            }
        }
        for s in o.samples {
            if self.samples.len() < 2 {
                self.samples.push(s)
            }
        }
        for s in o.nontrivial_samples {
            if self.nontrivial_samples.len() < 3 {
                self.nontrivial_samples.push(s)
            }
        }
    }
    fn absorb<I: Serialize + Hash>(&mut self, input: &I, case: Case) {
        self.evaluations += 1 + case.extra_evals;
        for c in case.classes {
            *self.classes.entry(c).or_default() += 1;
        }
        for c in case.excluded {
            *self.excluded.entry(c.to_string()).or_default() += 1;
        }
        for (k, v) in case.maxima {
            let e = self.maxima.entry(k.to_string()).or_insert(v);
            if v > *e {
                *e = v
            }
        }
        if case.nontrivial {
            let mut h = std::collections::hash_map::DefaultHasher::new();
            input.hash(&mut h);
            let fresh = self.nontrivial.insert(h.finish());
            if fresh && self.nontrivial_samples.len() < 3 {
                self.nontrivial_samples.push(render(input));
            }
        } else if self.samples.len() < 1 {
            self.samples.push(render(input));
        }
    }
}

pub fn render<I: Serialize>(input: &I) -> Value {
    let v = serde_json::to_value(input).unwrap_or(Value::Null);
    let s = v.to_string();
    if s.len() > 1500 {
        json!({"truncated_json": s.chars().take(1500).collect::<String>(), "full_len": s.len()})
    } else {
        v
    }
}

#[derive(Debug, Clone, serde::Deserialize)]
pub struct KnownFinding {
    pub property: String,
    pub key: String,
    pub status: String,
    #[serde(default)]
    pub commit: Option<String>,
    pub what: String,
}

pub struct Ctx {
    pub property: String,
    pub tier: Tier,
    pub seed: u64,
    pub threads: usize,
    pub known: Vec<KnownFinding>,
    pub verif_dir: PathBuf,
    pub replay_dir: PathBuf,
    pub stop: AtomicBool,
    pub printed_known: Mutex<HashSet<String>>,
    pub replay_counter: AtomicU64,
}

impl Ctx {
    pub fn is_known(&self, sig: &str) -> Option<&KnownFinding> {
        self.known
            .iter()
            .find(|k| k.property == self.property && k.status == "known" && k.key == sig)
    }
    pub fn note_known(&self, sig: &str) {
        if let Some(k) = self.is_known(sig) {
            let mut p = self.printed_known.lock().unwrap();
            if p.insert(sig.to_string()) {
                println!("KNOWN-FINDING: property={} {} [{}]", self.property, k.what, k.key);
            }
        }
    }
}

#[derive(Debug, Clone)]
pub struct ViolationRec {
    pub section: String,
    pub sig: String,
    pub msg: String,
    pub replay: PathBuf,
}

pub struct SectionReport {
    pub name: String,
    pub stats: Stats,
    pub violations: Vec<ViolationRec>,
    pub exhaustive: bool,
    pub rule: String,
    pub harness_errors: Vec<String>,
    pub wall_s: f64,
}

pub trait Section: Send + Sync {
    fn name(&self) -> &str;
    fn run(&self, ctx: &Ctx) -> SectionReport;
    /// Ok(Ok) = passes, Ok(Err(fail)) = fails, Err = cannot decode input
    fn replay(&self, input: &Value) -> Result<Result<(), Fail>, String>;
}

pub type CheckFn<I> = fn(&I, &mut Case) -> Result<(), Fail>;

// ---------------------------------------------------------------------------------------------
// stall watchdog: every case announces itself; a supervisor thread watches the workers' CPU clocks

pub trait Erased: Send {
    fn to_json(&self) -> Value;
    /// re-run the case in a fresh thread; true if it finishes within `limit_s` CPU-seconds
    fn finishes_within(&self, limit_s: f64) -> bool;
}

struct Current<I: 'static> {
    input: I,
    check: CheckFn<I>,
}

impl<I: Serialize + Clone + Send + 'static> Erased for Current<I> {
    fn to_json(&self) -> Value {
        serde_json::to_value(&self.input).unwrap_or(Value::Null)
    }
    fn finishes_within(&self, limit_s: f64) -> bool {
        let input = self.input.clone();
        let check = self.check;
        meter::finishes_within(limit_s, move || {
            let mut case = Case::default();
            let _ = check(&input, &mut case);
        })
    }
}

pub struct Slot {
    pub clock: libc::clockid_t,
    pub counter: AtomicU64,
    pub current: Mutex<Option<(String, Box<dyn Erased>)>>,
    /// journal mode (second run after the process died): the case in flight is written here first
    pub journal: Option<Mutex<std::fs::File>>,
}

/// directory of the per-thread journal files, set by the supervisor after a crash of the first run
fn journal_dir() -> Option<&'static PathBuf> {
    static D: std::sync::OnceLock<Option<PathBuf>> = std::sync::OnceLock::new();
    D.get_or_init(|| std::env::var_os("VERIF_JOURNAL").map(PathBuf::from)).as_ref()
}

pub static SLOTS: Mutex<Vec<std::sync::Arc<Slot>>> = Mutex::new(Vec::new());

thread_local! {
    static MY_SLOT: std::cell::RefCell<Option<std::sync::Arc<Slot>>> = const { std::cell::RefCell::new(None) };
    static SECTION: std::cell::RefCell<String> = const { std::cell::RefCell::new(String::new()) };
}

pub fn set_section(name: &str) {
    SECTION.with(|s| *s.borrow_mut() = name.to_string());
}

fn announce<I: Serialize + Clone + Send + 'static>(input: &I, check: CheckFn<I>) {
    MY_SLOT.with(|s| {
        let mut s = s.borrow_mut();
        if s.is_none() {
            let mut all = SLOTS.lock().unwrap();
            let journal = journal_dir().and_then(|d| std::fs::File::create(d.join(format!("slot-{}.json", all.len()))).ok()).map(Mutex::new);
            let slot = std::sync::Arc::new(Slot { clock: meter::my_cpu_clock(), counter: AtomicU64::new(0), current: Mutex::new(None), journal });
            all.push(slot.clone());
            drop(all);
            *s = Some(slot);
        }
        let slot = s.as_ref().unwrap();
        let section = SECTION.with(|x| x.borrow().clone());
        if let Some(j) = &slot.journal {
            use std::io::{Seek, Write};
            let text = serde_json::to_vec(&json!({"section": section, "input": serde_json::to_value(input).unwrap_or(Value::Null)})).unwrap_or_default();
            let mut f = j.lock().unwrap();
            let _ = f.set_len(0);
            let _ = f.seek(std::io::SeekFrom::Start(0));
            let _ = f.write_all(&text);
        }
        *slot.current.lock().unwrap() = Some((section, Box::new(Current { input: input.clone(), check })));
        slot.counter.fetch_add(1, Ordering::SeqCst);
    });
}

fn retire() {
    MY_SLOT.with(|s| {
        if let Some(slot) = s.borrow().as_ref() {
            slot.counter.fetch_add(1, Ordering::SeqCst);
            if let Some(j) = &slot.journal {
                let _ = j.lock().unwrap().set_len(0);
            }
        }
    });
}

pub const STALL_LIMIT_S: f64 = 5.0;
pub const STALL_CONFIRM_S: f64 = 20.0;

/// Supervisor: a case that burns more than STALL_LIMIT_S CPU-seconds is re-run alone with a
/// STALL_CONFIRM_S limit; if it still does not finish, the input is saved and the run ends.
/// `hang_is_violation`: the property's statement implies termination (C01, C06, C14).
pub fn start_stall_watchdog(property: String, replay_dir: PathBuf, hang_is_violation: bool) {
    std::thread::Builder::new()
        .name("stall-watchdog".into())
        .spawn(move || {
            let mut seen: Vec<(u64, u64, bool)> = Vec::new();
            loop {
                std::thread::sleep(std::time::Duration::from_millis(250));
                let slots: Vec<std::sync::Arc<Slot>> = SLOTS.lock().unwrap().clone();
                while seen.len() < slots.len() {
                    seen.push((u64::MAX, 0, false));
                }
                for (i, s) in slots.iter().enumerate() {
                    let Some(cpu) = meter::read_clock_ns(s.clock) else { continue };
                    let c = s.counter.load(Ordering::SeqCst);
                    if c != seen[i].0 {
                        seen[i] = (c, cpu, false);
                        continue;
                    }
                    if c % 2 == 1 && !seen[i].2 && (cpu.saturating_sub(seen[i].1)) as f64 / 1e9 > STALL_LIMIT_S {
                        seen[i].2 = true;
                        let guard = s.current.lock().unwrap();
                        let Some((section, cur)) = guard.as_ref() else { continue };
                        if cur.finishes_within(STALL_CONFIRM_S) {
                            eprintln!("stall-watchdog: a case of section {} exceeded {} CPU-s but finished on an isolated re-run; not reported", section, STALL_LIMIT_S);
                            continue;
                        }
                        let _ = std::fs::create_dir_all(&replay_dir);
                        let path = replay_dir.join(format!("{}-{}-hang.json", property, section));
                        let v = json!({
                            "property": property, "section": section, "signature": "hang:cpu",
                            "message": format!("a single case burnt more than {} CPU-seconds, and again more than {} CPU-seconds when re-run alone: a library call does not terminate", STALL_LIMIT_S, STALL_CONFIRM_S),
                            "input": cur.to_json(),
                        });
                        let _ = std::fs::write(&path, serde_json::to_string_pretty(&v).unwrap() + "\n");
                        if hang_is_violation {
                            println!("FAIL section={} sig=hang:cpu :: a library call does not terminate on this input", section);
                            println!("VIOLATION property={} replay={}", property, path.display());
                            std::process::exit(1);
                        } else {
                            println!("INCONCLUSIVE property={} a case of section {} does not terminate (input saved at {}); termination is not part of this property's statement", property, section, path.display());
                            std::process::exit(2);
                        }
                    }
                }
            }
        })
        .unwrap();
}

fn mix(mut h: u64, s: &str) -> u64 {
    for b in s.bytes() {
        h ^= b as u64;
        h = h.wrapping_mul(0x100000001b3);
    }
    h ^= h >> 29;
    h = h.wrapping_mul(0xbf58476d1ce4e5b9);
    h ^ (h >> 32)
}

pub fn derive_seed(seed: u64, property: &str, section: &str, shard: usize) -> u64 {
    let mut h = 0xcbf29ce484222325u64 ^ seed.wrapping_mul(0x9e3779b97f4a7c15);
    h = mix(h, property);
    h = mix(h, section);
    h = mix(h, &shard.to_string());
    h
}

fn write_replay<I: Serialize>(ctx: &Ctx, section: &str, input: &I, f: &Fail) -> PathBuf {
    let _ = std::fs::create_dir_all(&ctx.replay_dir);
    let n = ctx.replay_counter.fetch_add(1, Ordering::SeqCst);
    let safe_sig: String = f
        .sig
        .chars()
        .map(|c| if c.is_ascii_alphanumeric() { c } else { '_' })
        .take(60)
        .collect();
    let path = ctx
        .replay_dir
        .join(format!("{}-{}-{}-{}.json", ctx.property, section, safe_sig, n));
    let v = json!({
        "property": ctx.property,
        "section": section,
        "signature": f.sig,
        "message": f.msg,
        "input": serde_json::to_value(input).unwrap_or(Value::Null),
    });
    let _ = std::fs::write(&path, serde_json::to_string_pretty(&v).unwrap() + "\n");
    path
}

/// Evaluate one case under panic capture. A panic that escapes the check function from harness
/// code is a harness error; one located in the library is a failure of the property.
fn eval<I: Serialize + Clone + Send + 'static>(check: CheckFn<I>, input: &I, case: &mut Case) -> Result<Result<(), Fail>, String> {
    announce(input, check);
    let r = meter::catch(|| check(input, case));
    retire();
    match r {
        Ok(Err(f)) if f.sig.starts_with("harness:") => Err(format!("{}: {}", f.sig, f.msg)),
        Ok(r) => Ok(r),
        Err(p) => {
            if p.in_library() {
                Ok(Err(p.into()))
            } else {
                Err(format!("harness panic at {}:{}: {}", p.file, p.line, p.msg))
            }
        }
    }
}

// ---------------------------------------------------------------------------------------------

pub struct PropSection<I: 'static> {
    pub name: &'static str,
    pub rule: &'static str,
    pub strategy: fn(Tier) -> BoxedStrategy<I>,
    pub cases: (u32, u32),
    pub check: CheckFn<I>,
}

impl<I> Section for PropSection<I>
where
    I: Debug + Clone + Serialize + DeserializeOwned + Hash + Send + Sync + 'static,
{
    fn name(&self) -> &str {
        self.name
    }

    fn replay(&self, input: &Value) -> Result<Result<(), Fail>, String> {
        let i: I = serde_json::from_value(input.clone()).map_err(|e| e.to_string())?;
        let mut case = Case::default();
        eval(self.check, &i, &mut case)
    }

    fn run(&self, ctx: &Ctx) -> SectionReport {
        let t0 = Instant::now();
        let total = ctx.tier.pick(self.cases.0, self.cases.1) as usize;
        let shards = ctx.threads.min(total.max(1));
        let per = total.div_ceil(shards);
        let agg = Mutex::new(Stats::default());
        let violations = Mutex::new(Vec::new());
        let herrs = Mutex::new(Vec::new());
        std::thread::scope(|scope| {
            for shard in 0..shards {
                let agg = &agg;
                let violations = &violations;
                let herrs = &herrs;
                std::thread::Builder::new()
                    .name(format!("shard{}", shard))
                    .stack_size(64 << 20)
                    .spawn_scoped(scope, move || {
                        set_section(self.name);
                        let mut stats = Stats::default();
                        let frozen = std::cell::Cell::new(false);
                        let stats_cell = std::cell::RefCell::new(&mut stats);
                        let herr: std::cell::RefCell<Option<String>> = Default::default();
                        let chunk = 256usize.min(per.max(1));
                        let strat = (self.strategy)(ctx.tier);
                        let mut done = 0usize;
                        let mut chunk_no = 0usize;
                        while done < per {
                            if ctx.stop.load(Ordering::Relaxed) {
                                break;
                            }
                            // proptest counts successes per runner: one runner per chunk, seeded per (shard, chunk)
                            let seed = derive_seed(ctx.seed, &ctx.property, self.name, shard * 1_000_003 + chunk_no);
                            chunk_no += 1;
                            let mut config = Config::default();
                            config.cases = chunk.min(per - done) as u32;
                            config.failure_persistence = None;
                            config.rng_seed = RngSeed::Fixed(seed);
                            config.max_shrink_iters = ctx.tier.pick(2000, 8000);
                            config.verbose = 0;
                            let mut runner = TestRunner::new(config);
                            let r = runner.run(&strat, |input| {
                                let mut case = Case::default();
                                match eval(self.check, &input, &mut case) {
                                    Err(h) => {
                                        *herr.borrow_mut() = Some(h);
                                        Err(TestCaseError::fail("harness-error"))
                                    }
                                    Ok(Ok(())) => {
                                        if !frozen.get() {
                                            stats_cell.borrow_mut().absorb(&input, case);
                                        }
                                        Ok(())
                                    }
                                    Ok(Err(f)) => {
                                        if ctx.is_known(&f.sig).is_some() {
                                            if !frozen.get() {
                                                let mut s = stats_cell.borrow_mut();
                                                s.evaluations += 1;
                                                *s.known_hits.entry(f.sig.clone()).or_default() += 1;
                                            }
                                            ctx.note_known(&f.sig);
                                            Ok(())
                                        } else {
                                            frozen.set(true);
                                            Err(TestCaseError::fail(f.sig))
                                        }
                                    }
                                }
                            });
                            done += chunk;
                            match r {
                                Ok(()) => {}
                                Err(TestError::Fail(_, minimal)) => {
                                    if let Some(h) = herr.borrow_mut().take() {
                                        herrs.lock().unwrap().push(format!("{}: {} input={:?}", self.name, h, minimal));
                                        ctx.stop.store(true, Ordering::Relaxed);
                                        break;
                                    }
                                    // confirm outside proptest
                                    let mut case = Case::default();
                                    match eval(self.check, &minimal, &mut case) {
                                        Ok(Err(f)) => {
                                            let path = write_replay(ctx, self.name, &minimal, &f);
                                            violations.lock().unwrap().push(ViolationRec {
                                                section: self.name.to_string(),
                                                sig: f.sig,
                                                msg: f.msg,
                                                replay: path,
                                            });
                                        }
                                        Ok(Ok(())) => {
                                            herrs.lock().unwrap().push(format!(
                                                "{}: shrunk failure did not reproduce outside proptest (non-deterministic check?) input={:?}",
                                                self.name, minimal
                                            ));
                                        }
                                        Err(h) => herrs.lock().unwrap().push(h),
                                    }
                                    ctx.stop.store(true, Ordering::Relaxed);
                                    break;
                                }
                                Err(TestError::Abort(why)) => {
                                    herrs.lock().unwrap().push(format!("{}: proptest aborted: {}", self.name, why));
                                    break;
                                }
                            }
                        }
                        drop(stats_cell);
                        agg.lock().unwrap().merge(stats);
                    })
                    .unwrap();
            }
        });
        SectionReport {
            name: self.name.to_string(),
            stats: agg.into_inner().unwrap(),
            violations: violations.into_inner().unwrap(),
            exhaustive: false,
            rule: self.rule.to_string(),
            harness_errors: herrs.into_inner().unwrap(),
            wall_s: t0.elapsed().as_secs_f64(),
        }
    }
}

// ---------------------------------------------------------------------------------------------

/// Deterministic enumeration of a finite space. `enumerate(tier, shard, nshards, f)` must call `f`
/// for exactly the members of the space that belong to `shard` (any partition is fine).
pub struct EnumSection<I: 'static> {
    pub name: &'static str,
    pub rule: &'static str,
    pub enumerate: fn(Tier, usize, usize, &mut dyn FnMut(I) -> bool),
    pub check: CheckFn<I>,
    pub exhaustive: bool,
}

impl<I> Section for EnumSection<I>
where
    I: Debug + Clone + Serialize + DeserializeOwned + Hash + Send + Sync + 'static,
{
    fn name(&self) -> &str {
        self.name
    }

    fn replay(&self, input: &Value) -> Result<Result<(), Fail>, String> {
        let i: I = serde_json::from_value(input.clone()).map_err(|e| e.to_string())?;
        let mut case = Case::default();
        eval(self.check, &i, &mut case)
    }

    fn run(&self, ctx: &Ctx) -> SectionReport {
        let t0 = Instant::now();
        let shards = ctx.threads;
        let agg = Mutex::new(Stats::default());
        let violations = Mutex::new(Vec::new());
        let herrs = Mutex::new(Vec::new());
        std::thread::scope(|scope| {
            for shard in 0..shards {
                let agg = &agg;
                let violations = &violations;
                let herrs = &herrs;
                std::thread::Builder::new()
                    .name(format!("enum{}", shard))
                    .stack_size(64 << 20)
                    .spawn_scoped(scope, move || {
                        set_section(self.name);
                        let mut stats = Stats::default();
                        let mut seen_sigs: HashSet<String> = HashSet::new();
                        let walked = meter::catch(|| (self.enumerate)(ctx.tier, shard, shards, &mut |input: I| {
                            if ctx.stop.load(Ordering::Relaxed) {
                                return false;
                            }
                            let mut case = Case::default();
                            match eval(self.check, &input, &mut case) {
                                Err(h) => {
                                    herrs.lock().unwrap().push(format!("{}: {} input={:?}", self.name, h, input));
                                    ctx.stop.store(true, Ordering::Relaxed);
                                    false
                                }
                                Ok(Ok(())) => {
                                    stats.absorb(&input, case);
                                    true
                                }
                                Ok(Err(f)) => {
                                    stats.evaluations += 1;
                                    if ctx.is_known(&f.sig).is_some() {
                                        *stats.known_hits.entry(f.sig.clone()).or_default() += 1;
                                        ctx.note_known(&f.sig);
                                        true
                                    } else {
                                        // enumeration order is by size: the first hit per signature is (near) minimal
                                        if seen_sigs.insert(f.sig.clone()) {
                                            let path = write_replay(ctx, self.name, &input, &f);
                                            violations.lock().unwrap().push(ViolationRec {
                                                section: self.name.to_string(),
                                                sig: f.sig,
                                                msg: f.msg,
                                                replay: path,
                                            });
                                        }
                                        seen_sigs.len() < 8
                                    }
                                }
                            }
                        }));
                        if let Err(p) = walked {
                            herrs.lock().unwrap().push(format!("{}: enumerator panicked at {}:{}: {}", self.name, p.file, p.line, p.msg));
                        }
                        agg.lock().unwrap().merge(stats);
                    })
                    .unwrap();
            }
        });
        let mut v = violations.into_inner().unwrap();
        // one report per signature across shards
        let mut seen = HashSet::new();
        v.retain(|x: &ViolationRec| seen.insert(x.sig.clone()));
        if !v.is_empty() {
            ctx.stop.store(true, Ordering::Relaxed);
        }
        SectionReport {
            name: self.name.to_string(),
            stats: agg.into_inner().unwrap(),
            violations: v,
            exhaustive: self.exhaustive,
            rule: self.rule.to_string(),
            harness_errors: herrs.into_inner().unwrap(),
            wall_s: t0.elapsed().as_secs_f64(),
        }
    }
}

// ---------------------------------------------------------------------------------------------
// helpers for strategies

pub fn boxed<S: Strategy + 'static>(s: S) -> BoxedStrategy<S::Value> {
    s.boxed()
}

pub fn hex(b: &[u8]) -> String {
    let mut s = String::with_capacity(b.len() * 2);
    for x in b {
        s.push_str(&format!("{:02x}", x));
    }
    s
}

pub fn unhex(s: &str) -> Option<Vec<u8>> {
    if s.len() % 2 != 0 {
        return None;
    }
    (0..s.len() / 2)
        .map(|i| u8::from_str_radix(&s[2 * i..2 * i + 2], 16).ok())
        .collect()
}

/// Byte strings serialise as hex in replay files
#[derive(Clone, PartialEq, Eq, Hash, PartialOrd, Ord, Default)]
pub struct Bytes(pub Vec<u8>);

impl Debug for Bytes {
    fn fmt(&self, f: &mut std::fmt::Formatter<'_>) -> std::fmt::Result {
        write!(f, "x\"{}\"", hex(&self.0))
    }
}
impl Serialize for Bytes {
    fn serialize<S: serde::Serializer>(&self, s: S) -> Result<S::Ok, S::Error> {
        s.serialize_str(&hex(&self.0))
    }
}
impl<'de> serde::Deserialize<'de> for Bytes {
    fn deserialize<D: serde::Deserializer<'de>>(d: D) -> Result<Self, D::Error> {
        let s = String::deserialize(d)?;
        unhex(&s).map(Bytes).ok_or_else(|| serde::de::Error::custom("bad hex"))
    }
}
impl std::ops::Deref for Bytes {
    type Target = Vec<u8>;
    fn deref(&self) -> &Vec<u8> {
        &self.0
    }
}
impl From<Vec<u8>> for Bytes {
    fn from(v: Vec<u8>) -> Self {
        Bytes(v)
    }
}
impl From<&[u8]> for Bytes {
    fn from(v: &[u8]) -> Self {
        Bytes(v.to_vec())
    }
}

/// A section that only exists so that replay files written out-of-band (fuzz targets, watchdog,
/// heap cap) can be re-executed with `vp replay`; it contributes no cases of its own.
pub struct ReplayOnly<I: 'static> {
    pub name: &'static str,
    pub check: CheckFn<I>,
}

impl<I> Section for ReplayOnly<I>
where
    I: Debug + Clone + Serialize + DeserializeOwned + Hash + Send + Sync + 'static,
{
    fn name(&self) -> &str {
        self.name
    }
    fn replay(&self, input: &Value) -> Result<Result<(), Fail>, String> {
        let i: I = serde_json::from_value(input.clone()).map_err(|e| e.to_string())?;
        let mut case = Case::default();
        eval(self.check, &i, &mut case)
    }
    fn run(&self, _ctx: &Ctx) -> SectionReport {
        SectionReport {
            name: self.name.to_string(),
            stats: Stats::default(),
            violations: Vec::new(),
            exhaustive: true,
            rule: "replay only".into(),
            harness_errors: Vec::new(),
            wall_s: 0.0,
        }
    }
}

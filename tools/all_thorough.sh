#!/bin/bash
# runs every property's thorough tier once; prints one summary line per property
cd "$(dirname "$0")/.."
for i in 01 02 03 04 05 06 07 08 09 10 11 12 13 14 15 16 17 18 19 20; do
  S=$(date +%s)
  OUT=$(./bin/check C$i thorough 2>&1); RC=$?
  E=$(date +%s)
  echo "C$i rc=$RC $((E-S))s :: $(echo "$OUT" | grep -E '^(OK|VIOLATION|FAIL|HARNESS|BUILD|INCONCLUSIVE|FUZZ)' | tr '\n' ' ' | cut -c1-400)"
done

#!/bin/bash
# tools/benign.sh [ids...] : applies every stored change of /verif/benign (changes after which the named property
# still holds: unconstrained behaviour, another guarantee broken, pure refactoring) to a scratch worktree of /repo
# and runs the quick check of that property (variant c: all 20 checks with ALL=1). Every line must say MISSED
# (= silent); DETECTED here is a false alarm of the check.
cd /verif
ALLIDS="C01 C02 C03 C04 C05 C06 C07 C08 C09 C10 C11 C12 C13 C14 C15 C16 C17 C18 C19 C20"
first=1
for d in benign/${1:-C}*; do
  id=$(basename $d); pid=${id%-*}; v=${id#*-}
  if [ $first = 1 ]; then R=1; first=0; else R=; fi
  CH=$pid; [ "$v" = c ] && [ -n "${ALL:-}" ] && CH=$ALLIDS
  REFRESH_HARNESS=$R VPMUT_ROOT=${VPMUT_ROOT:-/tmp/vpmut-benign} SKIP_REPO_TESTS=${SKIP_REPO_TESTS-1} tools/mutant.sh $id /verif/$d/patch.diff $CH
done

#!/usr/bin/env python3
"""Maintains /verif/known_findings.json from the table below (run after adding an entry)."""
import json, os
HERE = os.path.dirname(os.path.dirname(os.path.abspath(__file__)))
# (property, key, status, commit, what)
F = [
 ("C18", "c18:type-code", "fixed", "b574c20", "RData::NULL(10, ..).type_code() returned TYPE::Unknown(10) instead of TYPE::NULL (record of wire type 10, constructed or parsed)"),
 ("C02", "c02:mismatch", "fixed", "d2a9c3e", "NSEC::len() omitted the type bitmaps: plain serialisation wrote a too small RDLENGTH and the bitmaps were lost on re-parse (corpus/C02/nsec-len-omits-bitmaps.json)"),
 ("C02", "c02:unparseable", "fixed", "3e919e9", "IPSECKEY::len() was 2 too large: plain serialisation wrote RDLENGTH beyond the data and the output did not parse (corpus/C02/ipseckey-len-off-by-two.json)"),
 ("C02", "panic:simple-dns/src/dns/rdata/nsec.rs:41", "fixed", "ed31f26", "NSEC parse window test `last - 1 != cur` underflowed / rejected increasing windows (windows [0,1]; corpus/C02/nsec-window-order-check.json)"),
 ("C01", "panic:simple-dns/src/dns/header_buffer.rs:20", "fixed", "b67c5fb", "header_buffer::{id,questions,answers,name_servers,additional_records,has_flags,rcode,opcode} indexed before converting and panicked on buffers shorter than the field (empty buffer; corpus/C01/panic_simple_dns_src_dns_header_buffer_rs_*.json)"),
 ("C01", "panic:simple-dns/src/dns/name.rs:194", "fixed", "a52ec30", "name decoder tested the caller cursor instead of the read cursor: a label reached through a pointer and ending at the last byte indexed out of bounds (corpus/C01/panic_simple_dns_src_dns_name_rs_194.json)"),
 ("C01", "c01:heap", "fixed", "9fa91f3", "Packet::parse pre-allocated Vec::with_capacity(header count): a 166-byte message announcing 65535 records held 2 MB (corpus/C01/c01_heap.json)"),
 ("C07", "c07:expands-wrong", "fixed", "bc5849c", "OPT TTL carried extended RCODE / VERSION in its two low octets; RFC 6891 puts them in the two high octets (packet with EDNS version 1: a reference decoder read version 0; corpus/C07/opt-ttl-layout.json, corpus/C09/)"),
 ("C03", "c03:compressed-mismatch", "fixed", "2722a09", "names first written beyond offset 16383 were recorded as compression targets and later pointers to them were truncated to 14 bits: compressed output parsed to different names or not at all (corpus/C03/pointer-beyond-16383*.json)"),
 ("C04", "c04:cursor-differs-compressed", "fixed", "2ce03a3", "write_compressed_to sought to SeekFrom::End(0) after back-patching RDLENGTH: on pre-filled storage the next record was written after the end of the buffer contents (corpus/C04/prefilled-storage-seek-end.json)"),
 ("C07", "c07:unwalkable@origin", "fixed", "9ae0a10", "write_compressed_to used absolute stream positions as pointer offsets: a writer starting at offset k>0 emitted pointers off by k (corpus/C07/nonzero-origin.json)"),
 ("C05", "c05:entries-differ-surplus", "fixed", "3b8e2f8", "the record cursor was left where the typed RDATA parser stopped: surplus RDATA bytes were read as the next record (A record with RDLENGTH 19 whose surplus is a well-formed record; corpus/C05/surplus-*.json)"),
 ("C11", "c11:rcode-nibble-11..15-without-opt", "fixed", "587fcb6", "a received response code 11..15 (no OPT) shows as RCODE::Reserved, whose discriminant 17 was written back as 17 & 15 = 1 (FormatError) (input 0000000b0000000000000000; corpus/C11/reserved-rcode-becomes-formaterror.json)"),
 ("C12", "panic:fmt.rs:655:a formatting trait implementation returned an error when the underlying stream d", "fixed", "3b15704", "Display for Label returned Err and Display for CharacterString unwrapped on non-UTF-8 bytes: Debug / to_string of a parsed packet with such a label panicked (corpus/C12/non-utf8-label-debug.json)"),
 ("C16", "c16:hash-instance", "fixed", "cfe8132", "InstanceInformation::hash fed its HashSets to the hasher in iteration order: equal values (same name, addresses, ports) hashed differently (corpus/C16/instance-hash-order.json)"),
 ("C19", "c19:long-attributes", "fixed", "c0749fa", "TXT::long_attributes compared `c as u8` with ';' / '=': U+013B and U+013D (and any char congruent mod 256) were taken for separators (input \"\u013b\"; corpus/C19/lookalike-semicolon.json)"),
 ("C13", "c13:answer-wrong-name", "fixed", "2d8892c", "the record store keyed a radix trie by the reversed labels concatenated without separators: foo.bar/foobar, _my.local/_mysrv.local, a.b.local/ba.local answered for each other and byte-prefixes counted as subdomains (corpus/C13/trie-key-*.json)"),
 ("C20", "c20:authoritative-missing", "fixed", "c503240", "add_cached_resource replaced an equal authoritative entry by an expiring cache entry: a locally registered record vanished from authoritative queries after the same record was received from the network (history AddAuth(1), AddCached(1,0,false); corpus/C20/auth-turned-into-cached.json)"),
 ("C15", "c15:attributes-differ", "fixed", "b2c2a1f", "TXT::attributes mapped an empty character-string to the attribute \"\" -> None: an instance advertised without attributes (empty TXT = one empty string on the wire) was discovered with one attribute (corpus/C15/empty-txt-yields-empty-key.json)"),
 ("C01", "panic:simple-dns/src/dns/rdata/a.rs:22", "fixed", "80de3fc", "every typed RDATA parser and CharacterString::parse sliced without bounds checks (and the character-string bound was off by one): RDLENGTH shorter than the fixed fields, or an inner length overrunning RDLENGTH, panicked (corpus/C01/panic_simple_dns_src_dns_rdata_*.json, corpus/C10/*-overrun.json)"),
]
out = {"_comment": "Genuine defects of balliegojr/simple-dns found by the checks. status=known: not repaired; keyed by the violation signature; reported as KNOWN-FINDING and tolerated so the search continues behind it. status=fixed: repaired by the named 'fix:' commit in /repo; suppresses nothing.",
       "findings": []}
for prop, key, status, commit, what in F:
    e = {"property": prop, "key": key, "status": status, "what": (f"fixed: property={prop} {commit} {what}" if status == "fixed" else what)}
    if commit: e["commit"] = commit
    out["findings"].append(e)
json.dump(out, open(os.path.join(HERE, "known_findings.json"), "w"), indent=1)
print(len(F), "findings")

#!/usr/bin/env python3
"""Regenerates /verif/MANIFEST.json from the table below (kept in one place so it stays valid)."""
import json, subprocess, os

HERE = os.path.dirname(os.path.dirname(os.path.abspath(__file__)))

def hook_commits():
    out = subprocess.run(["git", "-C", "/repo", "log", "--format=%h %s"], capture_output=True, text=True).stdout
    return [l.split()[0] for l in out.splitlines() if l.split(" ", 1)[1].startswith("verif hooks")]

CHECKS = {
 # id: (technique, level text, level note, design ref)
 "C08": ("exhaustive enumeration of all header words / flag-set pairs against an RFC 1035 bit-layout oracle",
         "Complete enumeration of the finite input space named by the property (65536 words x ids, 128x128 flag sets, named opcode x rcode x flags); every value is compared with an independently written bit decomposition.",
         "Trusts the bit layout typed into checks/c08.rs from RFC 1035 4.1.1; counts are sampled, not enumerated, for the peek functions.", "4/C08"),
 "C17": ("bounded-exhaustive enumeration of strings / lengths / name pairs against a grammar and suffix oracle",
         "All strings up to length 6 (7 thorough) over the 8-symbol alphabet, all label lengths 0..70, wire lengths 240..260, all pairs of small names: exhaustive within the stated bounds, sampled beyond them.",
         "Grammar written from the statement; 'letter/digit' read as ASCII.", "4/C17"),
 "C18": ("exhaustive enumeration of all 16-bit codes and the full record x question matrices against an IANA table",
         "Complete enumeration of all 65536 codes through the four conversions and of the (record type, question type) and (class, qclass) matrices, for records both constructed and parsed.",
         "IANA registry values typed into checks/c18.rs; MAILA/AXFR/IXFR matching not covered (statement silent).", "4/C18"),
}

def main():
    checks = []
    for cid in sorted(CHECKS):
        tech, text, note, ref = CHECKS[cid]
        checks.append({
            "property_id": cid,
            "quick_cmd": f"bin/check {cid} quick",
            "thorough_cmd": f"bin/check {cid} thorough",
            "evidence_file": f"/verif/evidence/{cid}.json",
            "replay_cmd_template": "harness/target/release/vp replay {path}",
            "engine": "vp",
            "level_claimed": {"category": "exploration", "text": text, "design_ref": f"DESIGN.md section {ref}"},
            "level_note": note,
            "technique": tech,
        })
    props = [json.loads(l)["id"] for l in open(os.path.join(HERE, "properties.jsonl"))]
    not_app = [{"property_id": p, "reason": "check not built yet in this session (work in progress; see DESIGN.md section 4 for the planned generated-input check)"} for p in props if p not in CHECKS]
    m = {
        "version": 1,
        "setup_cmd": "cd /verif/harness && ln -sfn /repo .repo && CARGO_NET_OFFLINE=true cargo build --release --offline",
        "hooks": {
            "guard": "--cfg simple_dns_verif",
            "enable": "RUSTFLAGS='--cfg simple_dns_verif' (set in harness/.cargo/config.toml; the harness path-depends on /repo/simple-dns and /repo/simple-mdns[sync] through harness/.repo)",
            "baseline_off_cmd": "cd /repo && cargo test --workspace --no-fail-fast --offline",
            "source_commits": hook_commits(),
            "add_only": True,
        },
        "engines": [
            {"name": "vp", "path": "harness", "serves_properties": sorted(CHECKS),
             "kind_free_text": "Rust binary: sharded proptest (TestRunner, fixed seeds from VERIF_SEED), deterministic enumerations, independent RFC reference model, heap/CPU meters, replay files"},
        ],
        "checks": checks,
        "not_applicable": not_app,
        "notes": "exit 2 = inconclusive (build failure of the harness against an edited tree, harness error, watchdog budget) and is never a violation. VERIF_SEED selects the PRNG stream; VERIF_THREADS the shard count.",
    }
    with open(os.path.join(HERE, "MANIFEST.json"), "w") as f:
        json.dump(m, f, indent=1)
        f.write("\n")

if __name__ == "__main__":
    main()

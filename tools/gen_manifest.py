#!/usr/bin/env python3
"""Regenerates /verif/MANIFEST.json from the table below (kept in one place so it stays valid)."""
import json, subprocess, os

HERE = os.path.dirname(os.path.dirname(os.path.abspath(__file__)))

def hook_commits():
    out = subprocess.run(["git", "-C", "/repo", "log", "--format=%h %s"], capture_output=True, text=True).stdout
    return [l.split()[0] for l in out.splitlines() if l.split(" ", 1)[1].startswith("verif hooks")]

CHECKS = {
 # id: (technique, level text, level note, design ref)
 "C01": ("bounded-exhaustive enumeration + property-based generation + coverage-guided fuzzing against a no-panic / heap-bound / CPU-watchdog oracle",
         "Every truncation, single-byte perturbation and RDLENGTH value of reference encodings of all 40 types, messages holding thousands of records of one type, all short buffers, all bodies up to 6 (7) bytes over a 12-symbol alphabet, generated pointer graphs up to 64 KiB and mutated reference encodings are parsed under panic capture, a per-thread heap meter and a thread-CPU watchdog; thorough adds libFuzzer campaigns with the same oracle in-target. Exploration: absence is not established beyond the enumerated bounds.",
         "Heap bound 64 KiB + 1024*len calibrated on the densest legitimate input; time asserted only through the 5 s / 20 s CPU watchdog; inputs capped at 65535 bytes.", "4/C01"),
 "C02": ("property-based round trip: abstract packet -> public constructors -> build_bytes_vec -> parse -> field-by-field observation; packets used a second time and changed through the public mutators after the first serialisation",
         "Generated packets over every typed variant, unknown and empty RDATA, binary labels, boundary integers, EDNS, named codes, plus suffix-sharing packets of up to 65535 bytes and packets assembled through the text / map / setter based constructors; names are built by one of three public routes per packet (from labels, through Name::without, from text); the parsed packet is observed through public accessors and byte hooks and compared with the generating model, not with the library's own PartialEq.",
         "Trusts the bridge (checks keyed by field name) and the documented construction domain (exclusions listed in the evidence assumptions).", "4/C02"),
 "C03": ("property-based differential: compressed vs plain serialisation vs model, suffix-sharing names, sizes straddling 16 KiB; writer entry point also at a non-zero origin, through short-write writers and into a reused buffer holding stale content",
         "Generated suffix-sharing packets with filler that moves names just below / at / above offset 16383 and up to 65535 bytes; compressed and plain outputs must parse to the model and compressed must not be longer; the compressed form is also written at a non-zero stream offset and through a writer accepting 1..3 bytes per call; names by three public routes, NSEC windows stored in descending order in a fifth of the packets.",
         "Same exclusions as C02; large messages are a weighted minority of cases (reported in coverage.classes).", "4/C03"),
 "C04": ("property-based + capacity enumeration: independent envelope walker and byte equality across writer configurations; extended response code without an OPT set framed too",
         "Generated packets (names built from labels, through Name::without or from text), packets built through the alternative constructors and packets obtained from the parser x {plain, compressed} x {Vec, growable cursor at offset 0/2/k over empty and pre-filled storage, writers accepting 1/3/7 bytes per call, fixed slices and cursors of every capacity 0..len+2}; framing checked by an independent RFC 1035 walker plus the schema decoder (a verdict that hinges on where a compression pointer leads is taken again with names read in place only).",
         "Capacity sweep is complete only for 15% of packets up to 600 bytes, 11 boundary capacities otherwise; cursor position after the write is not checked.", "4/C04"),
 "C05": ("property-based differential against an independent RFC 1035 envelope walker + schema decoder confined to each RDLENGTH slice; messages parsed in a reused receive buffer after a refused datagram",
         "Reference encodings with RDLENGTH larger (random or record-shaped surplus) or smaller than the typed content, bumped section counts, sections really holding 0..4000 entries, stray and twin OPT records, and mutated encodings; walker failure or content outside its frame => library must reject; library Ok => entries equal the framed entries.",
         "The library may reject for reasons of its own; no claim then. Reference schema is my RFC transcription (anchored on dnspython samples in C10).", "4/C05"),
 "C06": ("bounded-exhaustive enumeration + property-based generation against an independent RFC 1035 4.1.4 name decoder",
         "Every buffer up to 6 (7) bytes over a 12-symbol alphabet at every start offset, names around 255 bytes, chains of up to 4000 backward hops, every reserved-type octet, random label/pointer soups, names inside messages of every record type (foreign compression, pointers up to offset 16383), and records whose RDATA ends right before their last name are decoded by the library (hook Name::verif_parse) and by a reference decoder with a visited set; labels, resume offset and error classes are compared.",
         "Forward pointers and chains longer than 32 hops may be refused without claim; exhaustive only within the stated alphabet and length.", "4/C06"),
 "C07": ("property-based with an independent schema-aware pointer walker over compressed output, writers at non-zero origin; second, grown-clone and two-stage compressed outputs",
         "Every name occurrence (question, owner, RDATA names by type) of generated compressed messages is located independently; pointers must be backwards, <= 16383, onto a label start of an earlier-written name and relative to the message start; forbidden positions uncompressed; repeated RFC 1035 names compressed.",
         "RP/AFSDB/RT/NSAP-PTR names are accepted compressed or not (statement silent).", "4/C07"),
 "C08": ("exhaustive enumeration of all header words / flag-set pairs against an RFC 1035 bit-layout oracle; build side through every writer entry point, also at non-zero stream positions",
         "Complete enumeration of the finite input space named by the property (65536 words x ids, 128x128 flag sets, named opcode x rcode x flags), extended to words followed by an OPT record, opcode/rcode/flags assigned after parsing, 0..5000 entries actually present per section and all writer kinds; every value is compared with an independently written bit decomposition.",
         "Trusts the bit layout typed into checks/c08.rs from RFC 1035 4.1.1; counts are sampled, not enumerated, for the peek functions.", "4/C08"),
 "C09": ("property-based differential against an independent RFC 6891 OPT encoder/decoder, build and parse side, and received packets whose EDNS members, response code and additional section are edited before being written again",
         "Build side: an independent walker checks the single OPT record (section, ARCOUNT, root owner, CLASS, TTL octets, RDATA, header nibble). Parse side: reference encodings with OPT at any additional index, arbitrary DO/Z bits and 12-bit response codes.",
         "Unnamed response codes only need to show as Reserved.", "4/C09"),
 "C10": ("property-based differential against an independent declarative RFC schema (encoder + decoder), byte for byte, plus structural-rule and mutation cases, anchored on dnspython samples",
         "For each of the 40 types: reference encoding -> parse -> values; values -> build -> bytes equal the reference encoding; rule-breaking encodings (LOC version, SVCB key order, NSEC window order, inner length overruns) and single-byte mutations judged by the reference decoder; externally produced samples decode identically.",
         "The schema is my transcription of the RFCs (DESIGN.md appendix A), cross-checked against 30 dnspython-made files at every run.", "4/C10"),
 "C11": ("property-based + exhaustive header words: parse -> build (vector-returning and writer-based entry points) -> parse metamorphic relation on parser-accepted inputs, incl. small messages whose plain form exceeds 64 KiB; each form twice, also after failed writes on the same thread",
         "Reference encodings with foreign compression, stray OPT records, any opcode / response code, all 65536 header words, and accepted mutated encodings; after re-serialisation (plain and compressed) every observable field must be equal.",
         "Observation through public accessors and byte hooks; opcode()/rcode() compared as the caller sees them.", "4/C11"),
 "C12": ("property-based: every public observer (incl. Display / Debug with width, precision, alignment and alternate flags) applied to every part of parser-accepted packets under panic capture, with UTF-8 metamorphic checks",
         "Inputs biased to invalid UTF-8, NUL, dots, backslashes, empty and maximal strings; Debug/Display/clone/into_owned/eq/hash/suffix algebra/matching/TXT conversions are all invoked on every part.",
         "WireFormat::len is crate-private and not an observer.", "4/C12"),
 "C13": ("model-based testing: bounded-exhaustive catalogue + random histories over every record type against a set-based reference store and matcher (lower/upper bound on answers), the query also asked between the operations of a history",
         "Every subset of <= 3 (4) records of a 19-record catalogue whose names collide under concatenation x 528 questions and sampled pairs (each subset of 2..3 also with one member add-cached), plus random add/remove/clear histories and queries; answers must lie between the must-answer and may-answer sets; additional records, id, flags, unicast and no-reply conditions checked.",
         "Lowercase names only; MAILA/AXFR/IXFR matching not claimed; driven through the simple_mdns::verif hook.", "4/C13"),
 "C14": ("property-based sequences through a step-for-step copy of the three receive loops under panic capture and a real RwLock (supervised child process: a stack overflow or abort is decided by a crash journal), an alignment sweep of replies beyond 16 KiB, plus sampled fault injection over real loopback multicast sockets (sync and async services and resolvers)",
         "Datagram sequences (empty, short, random, mutated, hostile names, large) against arbitrary stores; no panic, lock not poisoned, replies parse, store still answers; a real responder and discovery service (sync and async) receive generated datagrams and responses claiming the discoverers' own instance names between two probe queries, and get_known_services must return within 30 s afterwards.",
         "The pure pipeline copies the loop bodies; only the socket section sees edits to the loops. Interleavings on the shared store are not explored. Socket section makes no claim without usable multicast.", "4/C14"),
 "C15": ("model-based testing: advertise (full, partial, reply-style) -> compressed wire -> ingest (sync / async) -> virtual time -> report, two-sided comparison with what the receptions imply; escape/unescape round trip; instance descriptions edited through their public members before being advertised",
         "Peers, repeated announcements and noise (own instance, service-name PTR, colliding foreign services, deeper names) (in reply style produced by the library's own build_reply answering the discoverer's two-question query) are ingested with the receive loop's own function and read back as get_known_services does; reported set must equal the advertised set exactly.",
         "Driven through the simple_mdns::verif hook with the store initialised as ServiceDiscovery::new does; the async variant shares the store and from_records only.", "4/C15"),
 "C16": ("property-based: clone / into_owned / built-vs-parsed triples compared by ==, observation, hash and bytes; twins differing in one field, in padding, in letter case, in class or in the way their type is named (== implies equal hashes); set-valued values rebuilt in permuted orders and as near twins (equal => same hash and one set slot, unequal => two)",
         "Three versions of every value (built, borrowed from plain buffer, borrowed from compressed buffer) and their clones / owned copies must be equal, hash equally and serialise identically; InstanceInformation rebuilt 32 times in rotated/reversed insertion orders.",
         "DefaultHasher::new() for hash comparison; HashSet RandomState only affects how fast an order-dependent Hash is caught.", "4/C16"),
 "C17": ("bounded-exhaustive enumeration of strings / lengths / name pairs against a grammar and suffix oracle, through Name::new and Name::try_from, including every pair of names sliced from one backing text",
         "All strings up to length 6 (7 thorough) over the 8-symbol alphabet, all label lengths 0..70, wire lengths 240..260, all pairs of small names: exhaustive within the stated bounds, sampled beyond them.",
         "Grammar written from the statement; 'letter/digit' read as ASCII.", "4/C17"),
 "C18": ("exhaustive enumeration of all 16-bit codes and the full record x question x class x cache-flush matrices against an IANA table, plus property-based checks that records parsed from mutated encodings report the TYPE / CLASS of their wire entry",
         "Complete enumeration of all 65536 codes through the four conversions and of the (record type, question type) and (class, qclass) matrices, for records both constructed and parsed.",
         "IANA registry values typed into checks/c18.rs; MAILA/AXFR/IXFR matching not covered (statement silent).", "4/C18"),
 "C19": ("property-based round trips and a reference splitter; exhaustive length enumeration for construction limits; conversions repeated after a refused conversion on the same thread",
         "Unicode strings around multiples of 254/255 bytes with multi-byte and look-alike characters, attribute maps with absent/empty values and duplicates, attribute strings with look-alike separators, all lengths 0..300 for construction.",
         "Empty keys not generated (RFC 6763 6.4).", "4/C19"),
 "C20": ("model-based testing with a controllable clock (additive ageing hook) and measured-time interval soundness, plus real-sleep histories",
         "Histories of add-authoritative / add-cached(ttl, flush) / re-add / remove / clear / advance, all names x all four filters queried after every step against a model with explicit reception instants; claims are made only when measured monotonic time proves them.",
         "verif_age(d) is assumed equivalent to advancing the clock (the store only compares stored instants with Instant::now()); cross-checked by a real-clock section. Completeness is asserted only for the record's own name or an ancestor that owns an entry.", "4/C20"),
}

def main():
    checks = []
    for cid in sorted(CHECKS):
        tech, text, note, ref = CHECKS[cid]
        checks.append({
            "property_id": cid,
            "quick_cmd": f"bin/check {cid} quick",
            "thorough_cmd": f"bin/check {cid} thorough",
            "evidence_file": f"/verif/evidence/{cid}.json",
            "replay_cmd_template": "harness/target/release/vp replay {path}",
            "engine": "vp",
            "level_claimed": {"category": "exploration", "text": text, "design_ref": f"DESIGN.md section {ref}"},
            "level_note": note,
            "technique": tech,
        })
    props = [json.loads(l)["id"] for l in open(os.path.join(HERE, "properties.jsonl"))]
    not_app = [{"property_id": p, "reason": "not claimed"} for p in props if p not in CHECKS]
    m = {
        "version": 1,
        "setup_cmd": "cd /verif/harness && ln -sfn /repo .repo && CARGO_NET_OFFLINE=true cargo build --release --offline",
        "hooks": {
            "guard": "--cfg simple_dns_verif",
            "enable": "RUSTFLAGS='--cfg simple_dns_verif' (set in harness/.cargo/config.toml; the harness path-depends on /repo/simple-dns and /repo/simple-mdns[sync] through harness/.repo)",
            "baseline_off_cmd": "cd /repo && cargo test --workspace --no-fail-fast --offline",
            "source_commits": hook_commits(),
            "add_only": True,
        },
        "engines": [
            {"name": "vp", "path": "harness", "serves_properties": sorted(CHECKS),
             "kind_free_text": "Rust binary: sharded proptest (TestRunner, fixed seeds from VERIF_SEED), deterministic enumerations, independent RFC reference model, heap/CPU meters, replay files"},
        ],
        "checks": checks,
        "not_applicable": not_app,
        "notes": "exit 2 = inconclusive (build failure of the harness against an edited tree, harness error, watchdog budget) and is never a violation. VERIF_SEED selects the PRNG stream; VERIF_THREADS the shard count.",
    }
    with open(os.path.join(HERE, "MANIFEST.json"), "w") as f:
        json.dump(m, f, indent=1)
        f.write("\n")

if __name__ == "__main__":
    main()

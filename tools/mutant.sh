#!/bin/bash
# tools/mutant.sh <name> <patch-file | revert:<commit>> <check ids...>
# Applies one change to a scratch worktree of /repo, confirms the repository's own tests still
# pass, runs the given quick checks against it (generators only, no saved corpus) and prints one
# line per check: DETECTED / MISSED / INCONCLUSIVE. Everything lives under /tmp/vpmut and is removed.
set -u
NAME=$1; CHANGE=$2; shift 2
ROOT=${VPMUT_ROOT:-/tmp/vpmut}
WT=$ROOT/repo-$NAME
mkdir -p $ROOT
if [ ! -d $ROOT/harness ]; then
  mkdir -p $ROOT/harness
  rsync -a --exclude target --exclude .repo /verif/harness/ $ROOT/harness/
elif [ -n "${REFRESH_HARNESS:-}" ]; then
  rsync -a --exclude target --exclude .repo --exclude build.log --exclude .build.lock /verif/harness/ $ROOT/harness/
fi
git -C /repo worktree remove --force $WT >/dev/null 2>&1
git -C /repo worktree add --detach $WT HEAD >/dev/null 2>&1 || { echo "$NAME: cannot create worktree"; exit 2; }
cleanup() { git -C /repo worktree remove --force $WT >/dev/null 2>&1; }
trap cleanup EXIT
case "$CHANGE" in
  revert:*) ( cd $WT && git revert --no-commit ${CHANGE#revert:} >/dev/null 2>&1 ) || { echo "$NAME: revert does not apply"; exit 2; } ;;
  *) ( cd $WT && git apply "$CHANGE" ) || { echo "$NAME: patch does not apply"; exit 2; } ;;
esac
# the repository's own tests must still pass (guard off)
if [ -z "${SKIP_REPO_TESTS:-}" ]; then
  ( cd $WT && CARGO_TARGET_DIR=$ROOT/repo-target cargo test --workspace --offline >$ROOT/$NAME.tests.log 2>&1 )
  if [ $? -ne 0 ]; then echo "$NAME: REPO-TESTS-FAIL (see $ROOT/$NAME.tests.log)"; [ -z "${ALLOW_TEST_FAIL:-}" ] && exit 3; fi
fi
for ID in "$@"; do
  OUT=$(VERIF_REPO=$WT VERIF_HARNESS_DIR=$ROOT/harness VERIF_TARGET_DIR=$ROOT/target VERIF_NO_CORPUS=1 \
        VERIF_EVIDENCE_DIR=$ROOT/evidence VERIF_REPLAY_DIR=$ROOT/replays-$NAME /verif/bin/check $ID quick 2>&1)
  RC=$?
  case $RC in
    1) echo "$NAME $ID DETECTED $(echo "$OUT" | grep -m1 '^FAIL' | cut -c1-160)" ;;
    0) echo "$NAME $ID MISSED" ;;
    *) echo "$NAME $ID INCONCLUSIVE rc=$RC $(echo "$OUT" | tail -2 | tr '\n' ' ' | cut -c1-200)" ;;
  esac
done

#!/bin/bash
# tools/seed_eval.sh <ID> <variant> [check ids...]
# Confirms a seeded change delivered under /tmp/seed/<ID>/seed/<variant>/ (patch applies, repository
# tests pass with it, demonstration fails with it and passes without it), then runs the quick checks
# (generators only) against it.
set -u
ID=$1; V=$2; shift 2
CHECKS=${@:-$ID}
SRC=${SEEDROOT:-/tmp/seed}/$ID/seed/$V
ROOT=${VPMUT_ROOT:-/tmp/vpmut}
WT=$ROOT/seedwt-$ID-$V
mkdir -p $ROOT
[ -f $SRC/patch.diff ] || { echo "$ID/$V: no patch.diff"; exit 2; }
git -C /repo worktree remove --force $WT >/dev/null 2>&1
git -C /repo worktree add --detach $WT HEAD >/dev/null 2>&1 || { echo "$ID/$V: cannot create worktree"; exit 2; }
trap 'git -C /repo worktree remove --force $WT >/dev/null 2>&1' EXIT
export CARGO_TARGET_DIR=$ROOT/repo-target-$ID
demo_install() {
  if [ -f $SRC/demo_test.rs ]; then
    DEST=$(grep -ohE "simple-m?dns/tests/seed[A-Za-z0-9_]*\.rs" $SRC/README.md | head -1)
    [ -z "$DEST" ] && DEST=$(grep -ohE "simple-m?dns/tests/[A-Za-z0-9_]+\.rs" $SRC/README.md | head -1)
    [ -z "$DEST" ] && DEST=simple-dns/tests/seed_demo.rs
    cp $SRC/demo_test.rs $WT/$DEST
    DEMO_CRATE=$(echo $DEST | cut -d/ -f1); DEMO_NAME=$(basename $DEST .rs)
    DEMO_CMD="cargo test -p $DEMO_CRATE --offline --test $DEMO_NAME"
    [ "$DEMO_CRATE" = "simple-mdns" ] && DEMO_CMD="cargo test -p simple-mdns --offline --features sync --test $DEMO_NAME"
  elif [ -f $SRC/demo.diff ]; then
    ( cd $WT && git apply $SRC/demo.diff ) || { echo "$ID/$V: demo.diff does not apply"; return 1; }
    DEMO_CMD="cargo test --workspace --offline seed"
    grep -q "features" $SRC/README.md && DEMO_CMD=$(grep -oE "cargo test[^\`]*seed[^\`]*" $SRC/README.md | head -1 | sed 's/CARGO_TARGET_DIR=[^ ]* //; s/ 2>.*$//; s/ |.*$//')
  else
    echo "$ID/$V: no demonstration delivered"; return 1
  fi
  return 0
}
# (iii) demo passes without the patch
demo_install || exit 2
( cd $WT && $DEMO_CMD >$ROOT/$ID-$V.demo-clean.log 2>&1 ); RC_CLEAN=$?
# apply the patch
( cd $WT && git apply $SRC/patch.diff ) || { echo "$ID/$V: PATCH-DOES-NOT-APPLY"; exit 2; }
( cd $WT && $DEMO_CMD >$ROOT/$ID-$V.demo-patched.log 2>&1 ); RC_PATCHED=$?
# (i) full suite with the patch but without the demo
( cd $WT && git clean -fdq -e target 2>/dev/null; true )
if [ -f $SRC/demo.diff ]; then ( cd $WT && git checkout -q -- . && git apply $SRC/patch.diff ); fi
( cd $WT && rm -f simple-dns/tests/seed_demo*.rs simple-mdns/tests/seed_demo*.rs; cargo test --workspace --offline >$ROOT/$ID-$V.suite.log 2>&1 ); RC_SUITE=$?
NPASS=$(grep -E "^test result: ok" $ROOT/$ID-$V.suite.log | awk '{s+=$4} END {print s+0}')
echo "$ID/$V confirm: demo-clean rc=$RC_CLEAN (want 0)  demo-patched rc=$RC_PATCHED (want !=0)  suite rc=$RC_SUITE passed=$NPASS"
if [ $RC_CLEAN -ne 0 ] || [ $RC_PATCHED -eq 0 ] || [ $RC_SUITE -ne 0 ]; then echo "$ID/$V: NOT-CONFIRMED"; exit 3; fi
# the checks
if [ ! -d $ROOT/harness ] || [ -n "${REFRESH_HARNESS:-}" ]; then rsync -a --exclude target --exclude .repo --exclude build.log --exclude .build.lock /verif/harness/ $ROOT/harness/; fi
unset CARGO_TARGET_DIR
for C in $CHECKS; do
  OUT=$(VERIF_REPO=$WT VERIF_HARNESS_DIR=$ROOT/harness VERIF_TARGET_DIR=$ROOT/target VERIF_NO_CORPUS=1 \
        VERIF_EVIDENCE_DIR=$ROOT/evidence VERIF_REPLAY_DIR=$ROOT/replays-$ID-$V /verif/bin/check $C quick 2>&1)
  RC=$?
  case $RC in
    1) echo "$ID/$V $C DETECTED $(echo "$OUT" | grep -m1 '^FAIL' | cut -c1-200)" ;;
    0) echo "$ID/$V $C MISSED" ;;
    *) echo "$ID/$V $C INCONCLUSIVE rc=$RC $(echo "$OUT" | tail -3 | tr '\n' ' ' | cut -c1-300)" ;;
  esac
done

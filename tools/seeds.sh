#!/bin/bash
# every quick check under several PRNG seeds, each from a fresh process; prints anything that is not OK
cd "$(dirname "$0")/.."
for seed in ${@:-1 2 3 7 42 20260926 4294967295}; do
  for i in 01 02 03 04 05 06 07 08 09 10 11 12 13 14 15 16 17 18 19 20; do
    OUT=$(VERIF_SEED=$seed VERIF_EVIDENCE_DIR=/tmp/vp-seeds-evidence ./bin/check C$i quick 2>&1); RC=$?
    [ $RC -ne 0 ] && echo "seed=$seed C$i rc=$RC $(echo "$OUT" | grep -E '^(VIOLATION|FAIL|HARNESS|BUILD|INCONCLUSIVE)' | head -3 | tr '\n' ' ')"
  done
  echo "seed $seed done"
done
rm -rf /tmp/vp-seeds-evidence
